#!/bin/bash
# Apply a seeded change to a scratch worktree of /repo's HEAD, build it, run one check against it.
# usage: try_patch.sh <patch.diff> <PROP> [extra run.py check args...]
# exit status = exit status of the check (1 = the check caught the change).  The worktree and its build output are removed afterwards.
set -u
patch=$(readlink -f "$1"); prop=$2; shift 2
wt=$(mktemp -d /tmp/ucgsim-mut-XXXXXX)
rmdir "$wt"
git -C /repo worktree add -q --detach "$wt" HEAD || exit 2
cleanup() { git -C /repo worktree remove --force "$wt" 2>/dev/null; rm -rf "$wt"; rm -rf /verif/.build/target-$(python3 -c "import hashlib,sys;print(hashlib.sha256(sys.argv[1].encode()).hexdigest()[:10])" "$wt"); }
trap cleanup EXIT
if ! git -C "$wt" apply "$patch"; then echo "patch does not apply"; exit 2; fi
cd /verif
UCGSIM_REPO="$wt" python3 sim/run.py check "$prop" "$@"
