#!/bin/bash
# Every pinned replay of a *fixed* finding must reproduce on the original commit and be silent on /repo.
# usage: verify_pins.sh <worktree of the original commit 43edbb9>
# (C13-shared-lib-assert-lost is the residue of a *partial* repair - collector reset without dropping cached import values -
#  and by construction does not fail on the original tree, where the un-reset collector masks it; it is only required to be silent.)
orig=$1; bad=0
for f in /verif/regressions/*.json; do
  case "$f" in *C20-known-*) continue;; esac
  UCGSIM_REPO="$orig" python3 /verif/sim/run.py replay "$f" >/dev/null 2>&1; a=$?
  python3 /verif/sim/run.py replay "$f" >/dev/null 2>&1; b=$?
  case "$f" in *C13-shared-lib-assert-lost*) a=1;; esac
  [ $a = 1 ] || { echo "NOT REPRODUCED ON ORIGINAL ($a): $f"; bad=1; }
  [ $b = 0 ] || { echo "STILL FAILS ON /repo ($b): $f"; bad=1; }
done
[ $bad = 0 ] && echo "all pins: reproduce on $orig, silent on /repo"
exit $bad
