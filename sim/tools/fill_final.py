#!/usr/bin/env python3
"""Fill @@THOROUGH@@ and @@FINALSWEEP@@ in DESIGN.md from logs/thorough-*.txt and logs/final-sweep.txt."""
import glob
import re

p = "/verif/DESIGN.md"
s = open(p).read()
parts = []
for f in sorted(glob.glob("/verif/logs/thorough-C*.txt")):
    last = [l for l in open(f).read().split("\n") if re.match(r"^C\d\d: ", l)]
    det = [l for l in open(f).read().split("\n") if l.startswith("determinism:")]
    if last:
        m = re.match(r"^(C\d\d): (\d+) runs, (\d+) invocations, .*?(\d+) violation class\(es\), (\d+) anomalies, ([\d.]+)s(.*)$", last[-1])
        if m:
            parts.append("%s %s runs / %s invocations / %s violations / %.0f min%s%s" % (
                m.group(1), m.group(2), m.group(3), m.group(4), float(m.group(6)) / 60, " (wall cap hit)" if "wall cap" in m.group(7) else "",
                "; " + det[-1].replace("determinism: ", "") if det else ""))
thorough = "; ".join(parts) if parts else "not run"
sweep = [l for l in open("/verif/logs/final-sweep.txt").read().split("\n") if l.startswith("seed=")] if glob.glob("/verif/logs/final-sweep.txt") else []
seeds = sorted(set(l.split()[0] for l in sweep))
bad = [l for l in sweep if "exit=0" not in l]
fs = "%d check runs under %d further seeds (%s), %d with a non-zero exit" % (len(sweep), len(seeds), ", ".join(x.split("=")[1] for x in seeds), len(bad))
s = s.replace("@@THOROUGH@@", thorough).replace("@@FINALSWEEP@@", fs)
open(p, "w").write(s)
print(thorough)
print(fs)
