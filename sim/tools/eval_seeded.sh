#!/bin/bash
# Evaluate seeded changes: for each /verif/seeded/<name>/patch.diff apply it in ONE scratch worktree (incremental builds),
# run the repository test suite, then the property's quick check against that tree.  Appends one line per change to the log.
# usage: eval_seeded.sh <worktree> <log> <name>...        (worktree: a clean detached worktree of /repo HEAD)
wt=$1; log=$2; shift 2
for name in "$@"; do
  d=/verif/seeded/$name
  prop=$(python3 -c "import json;print(json.load(open('$d/meta.json'))['property'])")
  git -C "$wt" checkout -q -- . ; git -C "$wt" clean -qfd -e target -e .seeded
  if ! git -C "$wt" apply "$d/patch.diff"; then echo "$name $prop APPLY-FAILED" >> "$log"; continue; fi
  tests=$(cd "$wt" && CARGO_NET_OFFLINE=true cargo test --workspace --no-fail-fast --offline 2>&1 | grep -E "^test result" | head -1 | sed -E 's/.*ok\. ([0-9]+) passed; ([0-9]+) failed.*/\1p\/\2f/; s/.*FAILED\. ([0-9]+) passed; ([0-9]+) failed.*/\1p\/\2f/')
  cd /verif
  out=$(UCGSIM_REPO="$wt" python3 sim/run.py check "$prop" ${EVAL_ARGS:-} 2>&1)
  rc=$?
  classes=$(echo "$out" | grep -E "^violation class" | sed -E "s/violation class '([^']*)'.*/\1/" | head -4 | tr '\n' ';')
  first=$(echo "$out" | grep -E "^violation class" | head -1 | sed -E 's/.*first in run ([0-9]+).*/\1/')
  demo="none"
  if [ -f "$d/demo.sh" ]; then
    mutbin=/verif/.build/target-$(python3 -c "import hashlib,sys;print(hashlib.sha256(sys.argv[1].encode()).hexdigest()[:10])" "$wt")/release/ucg
    (cd "$d" && bash ./demo.sh /verif/.build/target/release/ucg >/dev/null 2>&1); db=$?
    (cd "$d" && bash ./demo.sh "$mutbin" >/dev/null 2>&1); dm=$?
    demo="base=$db,changed=$dm"
  fi
  echo "$name $prop tests=$tests demo=[$demo] check_exit=$rc first_run=$first classes=[$classes]" >> "$log"
done
git -C "$wt" checkout -q -- .
