#!/usr/bin/env python3
"""Merge the evaluation logs (out/eval-*.log) into /verif/seeded/<name>/meta.json and print a markdown table.
Later log lines for the same change override earlier ones (re-evaluation after strengthening); the pre-strengthening
result (eval-before.log) is kept separately as `before`."""
import glob
import json
import os
import re

root = "/verif/seeded"
line_re = re.compile(r"^(\S+) (\S+) (?:OLD-CHECKS\((\w+)\) )?(?:tests=(\S+) )?(?:demo=\[([^\]]*)\] )?check_exit=(\d+)(?: first_run=(\d*))? classes=\[(.*)\]$")
now, before = {}, {}
for log in sorted(glob.glob("/verif/out/eval-*.log")):
    for l in open(log):
        m = line_re.match(l.strip())
        if not m:
            continue
        name, prop, old, tests, demo, rc, first, classes = m.groups()
        rec = {"property_checked": prop, "check_exit": int(rc), "caught": rc == "1" or bool(classes.strip()), "first_violating_run": int(first) if first else None,
               "violation_classes": [c for c in classes.split(";") if c]}
        if tests:
            rec["test_suite"] = tests
        if demo:
            rec["demo"] = demo
        if old:
            rec["verif_commit"] = old
            before[(name, prop)] = rec
        else:
            now[(name, prop)] = rec
rows = []
for d in sorted(os.listdir(root)):
    mp = os.path.join(root, d, "meta.json")
    if not os.path.exists(mp):
        continue
    meta = json.load(open(mp))
    evs = {p: r for (n, p), r in now.items() if n == d}
    bes = {p: r for (n, p), r in before.items() if n == d}
    if evs:
        meta["evaluation"] = evs
    if bes:
        meta["evaluation_before_strengthening"] = bes
    json.dump(meta, open(mp, "w"), indent=1, ensure_ascii=False)
    for p, r in sorted(evs.items()):
        b = bes.get(p)
        rows.append("| %s | %s | %s | %s | %s | %s |" % (
            d, p, (meta.get("title") or "")[:110].replace("|", "/"), r.get("test_suite", "?"),
            ("caught" if b["caught"] else "MISSED") if b else "-",
            ("caught (run %s): %s" % (r["first_violating_run"], "; ".join(r["violation_classes"][:2])) if r["caught"] else "MISSED") + ((" - " + meta["note"]) if meta.get("note") else "")))
print("| change | check | what it does | suite | before strengthening | final checks |")
print("|---|---|---|---|---|---|")
print("\n".join(rows))
