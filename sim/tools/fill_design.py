#!/usr/bin/env python3
"""Fill the generated parts of DESIGN.md (between marker comments) from the logs: seeded-change table, seed sweep, log list."""
import re
import subprocess

p = "/verif/DESIGN.md"
s = open(p).read()
table = subprocess.run(["python3", "/verif/sim/tools/summarise_seeded.py"], capture_output=True, text=True).stdout.strip()
rows = [l for l in table.split("\n")[2:] if l.startswith("|")]
names = sorted(set(r.split("|")[1].strip() for r in rows))
agent = [n for n in names if not n.startswith("own-")]
own = [n for n in names if n.startswith("own-")]
caught = set(r.split("|")[1].strip() for r in rows if "| caught (run" in r)
missed_final = [n for n in names if n not in caught]
before_missed = sorted(set(r.split("|")[1].strip() for r in rows if "| MISSED | caught" in r))
rounds = len(set(n.split("-")[1] for n in agent if len(n.split("-")) == 3))
summary = "**Result.** %d seeded changes (%d from sub-agents in %d rounds, %d of my own). With the final checks, quick tier: %d caught, %d not caught (%s). Measured misses of earlier versions of the checks that the strengthening closed: %d (%s).\n\n" % (
    len(names), len(agent), rounds, len(own), len(caught), len(missed_final), ", ".join(missed_final) or "none", len(before_missed), ", ".join(before_missed))
block = "<!-- SEEDED_TABLE begin -->\n" + summary + table + "\n<!-- SEEDED_TABLE end -->"
if "@@SEEDED_TABLE@@" in s:
    s = s.replace("@@SEEDED_TABLE@@", block)
else:
    s = re.sub(r"<!-- SEEDED_TABLE begin -->.*?<!-- SEEDED_TABLE end -->", lambda m: block, s, flags=re.S)
open(p, "w").write(s)
print(summary)
