#!/usr/bin/env python3
"""Write a hand-minimised world as a pinned replay file.
usage: UCGSIM_REPO=<tree that has the defect> mkpin.py <PROP> <world.json|-> <out.json> [signature-substring]
Executes the world against the subject, prints the violation signatures observed and stores the first one
(or the first containing the given substring) as the replay's expected violation."""
import json
import os
import sys

sys.path.insert(0, os.path.dirname(os.path.dirname(os.path.abspath(__file__))))
from ucgsim import engine, subject  # noqa: E402

prop, src, dst = sys.argv[1:4]
want = sys.argv[4] if len(sys.argv) > 4 else ""
world = json.load(sys.stdin if src == "-" else open(src))
subject.build(verbose=False)
mod = engine.load_check(prop)
res = engine.execute(mod, world)
if res.harness_error:
    print(res.harness_error)
    sys.exit(2)
sigs = [v["signature"] for v in res.violations]
print("observed:", sigs)
v = next((v for v in res.violations if want in v["signature"]), None)
if v is None:
    print("no matching violation; nothing written")
    sys.exit(1)
json.dump({"format": 1, "property": mod.PROPERTY, "seed": 0, "run_index": -1, "run_seed": 0, "world": world, "violation": v,
           "rendered": mod.render(world) if hasattr(mod, "render") else None,
           "subject": {"repo": subject.repo_dir(), "rev": subject.repo_rev()}}, open(dst, "w"), indent=1, sort_keys=True)
print("wrote", dst, "->", v["signature"])
