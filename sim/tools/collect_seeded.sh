#!/bin/bash
# copy a sub-agent's results (<worktree>/.seeded/k/) into /verif/seeded/<tag>-k/
wt=$1; tag=$2
for k in "$wt"/.seeded/[0-9]*; do
  [ -f "$k/patch.diff" ] || continue
  n=$(basename "$k"); dst=/verif/seeded/$tag-$n; mkdir -p "$dst"
  cp "$k"/patch.diff "$k"/meta.json "$dst"/ 2>/dev/null
  for f in "$k"/*; do case "$(basename $f)" in patch.diff|meta.json) ;; *) [ -f "$f" ] && [ $(stat -c %s "$f") -lt 200000 ] && cp "$f" "$dst"/ ;; esac; done
  echo "$dst"
done
