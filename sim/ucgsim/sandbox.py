"""Sealed sandbox around one simulated world: a fresh directory tree on tmpfs,
an exact environment, a cwd, rlimits; every invocation of the subject goes
through `invoke`, which records exit status and the merged output stream."""
import hashlib
import os
import re
import resource
import shutil
import signal
import subprocess
import time

from . import subject

_COUNTER = [0]
HANG_S = 30.0


def _base():
    for b in ("/dev/shm", os.environ.get("TMPDIR", ""), "/var/tmp"):
        if b and os.path.isdir(b) and os.access(b, os.W_OK):
            return b
    raise RuntimeError("no sandbox base directory")


class Inv:
    """One recorded invocation."""
    __slots__ = ("argv", "cwd", "status", "signal", "timed_out", "out", "raw", "wall")

    def __init__(self, argv, cwd, status, sig, timed_out, out, raw, wall):
        self.argv = argv
        self.cwd = cwd
        self.status = status
        self.signal = sig
        self.timed_out = timed_out
        self.out = out
        self.raw = raw
        self.wall = wall

    @property
    def ok(self):
        return self.status == 0 and not self.timed_out

    def abnormal(self):
        """status outside {0,1}, a signal, or a timeout."""
        return self.timed_out or self.signal is not None or self.status not in (0, 1)

    def rec(self):
        return {"argv": self.argv, "cwd": self.cwd, "status": self.status, "signal": self.signal,
                "timed_out": self.timed_out, "out": self.out}


_PANIC_ID = re.compile(r"thread '([^']*)' \(\d+\) panicked")


class Sandbox:
    def __init__(self):
        _COUNTER[0] += 1
        name = "ucgsim-%08x%06x" % (os.getpid() & 0xFFFFFFFF, _COUNTER[0] & 0xFFFFFF)
        self.root = os.path.join(_base(), name)
        if os.path.exists(self.root):
            shutil.rmtree(self.root, ignore_errors=True)
        os.mkdir(self.root)
        os.mkdir(os.path.join(self.root, "home"))
        os.mkdir(os.path.join(self.root, "home", ".ucg"))
        self.invocations = 0
        self.anomalies = []
        self.bin = subject.binary()

    # ---- tree -----------------------------------------------------------
    def p(self, rel=""):
        if rel.startswith("/"):
            return rel
        return os.path.join(self.root, rel) if rel else self.root

    def mkdir(self, rel):
        os.makedirs(self.p(rel), exist_ok=True)

    def write(self, rel, data):
        path = self.p(rel)
        d = os.path.dirname(path)
        if not os.path.isdir(d):
            os.makedirs(d, exist_ok=True)
        if isinstance(data, str):
            data = data.encode("utf-8")
        if os.path.islink(path):
            os.unlink(path)
        with open(path, "wb") as f:
            f.write(data)

    def read(self, rel):
        with open(self.p(rel), "rb") as f:
            return f.read()

    def exists(self, rel):
        return os.path.lexists(self.p(rel))

    def remove(self, rel):
        path = self.p(rel)
        if os.path.islink(path) or os.path.isfile(path):
            os.unlink(path)
        elif os.path.isdir(path):
            shutil.rmtree(path)

    def symlink(self, rel, target):
        path = self.p(rel)
        d = os.path.dirname(path)
        os.makedirs(d, exist_ok=True)
        if os.path.lexists(path):
            self.remove(rel)
        os.symlink(target, path)

    def materialise(self, files):
        """files: ordered list of (rel, kind, payload); creation order is part of the
        world (tmpfs lists directory entries newest first)."""
        for rel, kind, payload in files:
            if kind == "file":
                self.write(rel, payload)
            elif kind == "bytes":
                self.write(rel, bytes.fromhex(payload))
            elif kind == "dir":
                self.mkdir(rel)
            elif kind == "symlink":
                self.symlink(rel, payload)
            else:
                raise ValueError(kind)

    def snapshot(self, sub="", skip=("home",)):
        """rel path -> descriptor.  Files: ['f', sha256, size]; dirs: ['d']; links: ['l', target]."""
        out = {}
        top = self.p(sub)
        for dirpath, dirnames, filenames in os.walk(top):
            dirnames.sort()
            rel_dir = os.path.relpath(dirpath, self.root)
            if rel_dir == ".":
                rel_dir = ""
                dirnames[:] = [d for d in dirnames if d not in skip]
            for d in list(dirnames):
                full = os.path.join(dirpath, d)
                rel = os.path.join(rel_dir, d) if rel_dir else d
                if os.path.islink(full):
                    out[rel] = ["l", os.readlink(full)]
                    dirnames.remove(d)
                else:
                    out[rel] = ["d"]
            for fn in sorted(filenames):
                full = os.path.join(dirpath, fn)
                rel = os.path.join(rel_dir, fn) if rel_dir else fn
                if os.path.islink(full):
                    out[rel] = ["l", os.readlink(full)]
                else:
                    with open(full, "rb") as f:
                        b = f.read()
                    out[rel] = ["f", hashlib.sha256(b).hexdigest()[:20], len(b)]
        return out

    # ---- subject ----------------------------------------------------------
    def norm(self, text):
        text = text.replace(self.root, "<ROOT>")
        return _PANIC_ID.sub(r"thread '\1' (N) panicked", text)

    def base_env(self):
        return {"HOME": self.p("home")}

    def invoke(self, args, cwd="", env=None, fsize=None, stdin=None, timeout=HANG_S, binary=None, nofile=None, stdout_closed=False):
        """Run `ucg <args>` with cwd (relative to the sandbox root), exactly the
        environment `env` plus HOME, optional RLIMIT_FSIZE (torn write at byte N)."""
        full_env = self.base_env()
        if env:
            full_env.update(env)
        # exact bytes, independent of the harness's own locale
        full_env = {k.encode("utf-8"): v.encode("utf-8") for k, v in full_env.items()}
        argv = [binary or self.bin] + list(args)

        def pre():
            if fsize is not None:
                signal.signal(signal.SIGXFSZ, signal.SIG_IGN)
                resource.setrlimit(resource.RLIMIT_FSIZE, (fsize, fsize))
            if nofile is not None:
                # resource exhaustion: at most `nofile` open descriptors (stdin/stdout/stderr included)
                resource.setrlimit(resource.RLIMIT_NOFILE, (nofile, nofile))
            resource.setrlimit(resource.RLIMIT_CORE, (0, 0))

        t0 = time.monotonic()
        timed_out = False
        closed_w = None
        try:
            if stdout_closed:
                # fault: whoever was reading the program's standard output has gone away (`| head -1`, a pager that was quit);
                # every write to it fails with EPIPE.  Standard error is still recorded.
                r_, closed_w = os.pipe()
                os.close(r_)
                pr = subprocess.run(argv, cwd=self.p(cwd), env=full_env, stdin=subprocess.DEVNULL, stdout=closed_w, stderr=subprocess.PIPE,
                                    timeout=timeout, preexec_fn=pre)
                rc = pr.returncode
                raw = pr.stderr
            else:
                pr = subprocess.run(argv, cwd=self.p(cwd), env=full_env, stdin=subprocess.DEVNULL if stdin is None else None,
                                    input=stdin, stdout=subprocess.PIPE, stderr=subprocess.STDOUT, timeout=timeout,
                                    preexec_fn=pre, restore_signals=(fsize is None))
                rc = pr.returncode
                raw = pr.stdout
        except subprocess.TimeoutExpired as e:
            timed_out = True
            rc = None
            raw = (e.stderr if stdout_closed else e.stdout) or b""
        finally:
            if closed_w is not None:
                os.close(closed_w)
        wall = time.monotonic() - t0
        sig = None
        status = rc
        if rc is not None and rc < 0:
            sig = -rc
            status = None
        out = self.norm(raw.decode("utf-8", "replace"))
        self.invocations += 1
        inv = Inv([self.norm(a) for a in args], cwd, status, sig, timed_out, out, raw, wall)
        if inv.abnormal() and not stdout_closed:
            self.anomalies.append({"argv": inv.argv, "status": status, "signal": sig, "timed_out": timed_out,
                                   "tail": out[-300:]})
        return inv

    def close(self):
        shutil.rmtree(self.root, ignore_errors=True)

    def __enter__(self):
        return self

    def __exit__(self, *a):
        self.close()


def sweep_stale():
    """Remove sandboxes left by killed earlier runs of this harness (same uid)."""
    b = _base()
    for n in os.listdir(b):
        if n.startswith("ucgsim-"):
            full = os.path.join(b, n)
            try:
                pid = int(n[7:15], 16)
                os.kill(pid, 0)
            except (ValueError, ProcessLookupError):
                shutil.rmtree(full, ignore_errors=True)
            except PermissionError:
                pass
