"""Builds and locates the subject: the real `ucg` release binary, from the
working tree of the repository (default /repo, override UCGSIM_REPO)."""
import fcntl
import hashlib
import os
import subprocess
import sys

VERIF = os.path.dirname(os.path.dirname(os.path.dirname(os.path.abspath(__file__))))
if not os.path.exists(os.path.join(VERIF, "sim")):
    VERIF = "/verif"


def repo_dir():
    return os.environ.get("UCGSIM_REPO", "/repo")


def target_dir():
    repo = os.path.abspath(repo_dir())
    base = os.environ.get("UCGSIM_BUILD", "/verif/.build")
    if repo == "/repo":
        return os.path.join(base, "target")
    tag = hashlib.sha256(repo.encode()).hexdigest()[:10]
    return os.path.join(base, "target-" + tag)


def binary():
    return os.path.join(target_dir(), "release", "ucg")


def build(verbose=True):
    """cargo build (no-op when unchanged). Exits 2 on failure: a subject that does
    not compile is a harness error, not a property violation."""
    td = target_dir()
    os.makedirs(td, exist_ok=True)
    lock = open(os.path.join(td, ".ucgsim.lock"), "w")
    fcntl.flock(lock, fcntl.LOCK_EX)
    try:
        env = dict(os.environ)
        env["CARGO_NET_OFFLINE"] = "true"
        cmd = ["cargo", "build", "--release", "--offline", "--manifest-path",
               os.path.join(repo_dir(), "Cargo.toml"), "--bin", "ucg", "--target-dir", td]
        p = subprocess.run(cmd, env=env, stdout=subprocess.PIPE, stderr=subprocess.STDOUT, text=True)
        if p.returncode != 0:
            sys.stdout.write(p.stdout[-6000:])
            print("HARNESS-ERROR: subject does not build (exit %d)" % p.returncode)
            sys.exit(2)
        if verbose:
            last = [l for l in p.stdout.splitlines() if l.strip()][-1:]
            print("subject: %s (%s)" % (binary(), last[0].strip() if last else "built"))
    finally:
        fcntl.flock(lock, fcntl.LOCK_UN)
        lock.close()
    if not os.path.exists(binary()):
        print("HARNESS-ERROR: %s missing after build" % binary())
        sys.exit(2)
    return binary()


def binary_id():
    h = hashlib.sha256()
    with open(binary(), "rb") as f:
        for blk in iter(lambda: f.read(1 << 20), b""):
            h.update(blk)
    return h.hexdigest()[:16]


def repo_rev():
    try:
        r = subprocess.run(["git", "-C", repo_dir(), "rev-parse", "--short", "HEAD"], stdout=subprocess.PIPE,
                           stderr=subprocess.DEVNULL, text=True).stdout.strip()
        d = subprocess.run(["git", "-C", repo_dir(), "status", "--porcelain", "--untracked-files=no"],
                           stdout=subprocess.PIPE, stderr=subprocess.DEVNULL, text=True).stdout.strip()
        return r + ("+dirty" if d else "")
    except Exception:
        return "unknown"
