"""Simulated LSP client for the real `ucg lsp` process over its real stdio transport.

The server is sequential: every client message that has an answer has exactly one, and the
answers come out in the order the messages went in.  The client therefore keeps a FIFO of
expectations and matches server output against it; bursts pipeline k messages before reading."""
import json
import os
import queue
import subprocess
import threading
import time

HANG_S = 30.0
REQUEST_METHODS = {
    "hover": "textDocument/hover",
    "definition": "textDocument/definition",
    "completion": "textDocument/completion",
    "semtok": "textDocument/semanticTokens/full",
    "wssym": "workspace/symbol",
}


def path_to_uri(path):
    """file URI as a client builds it: path percent-encoded (blanks, non-ASCII, ...)"""
    from urllib.parse import quote
    return "file://" + quote(path)


def uri_to_path(uri):
    from urllib.parse import unquote
    return unquote(uri[len("file://"):]) if uri.startswith("file://") else None


def frame(obj):
    body = json.dumps(obj, ensure_ascii=False, separators=(",", ":")).encode("utf-8")
    return b"Content-Length: %d\r\n\r\n" % len(body) + body


class ServerDied(Exception):
    pass


class NoReply(Exception):
    pass


class Server:
    def __init__(self, sb, root_rel, env=None, cwd_rel=None):
        self.sb = sb
        self.root_abs = sb.p(root_rel)
        full_env = sb.base_env()
        if env:
            full_env.update(env)
        full_env = {k.encode(): v.encode() for k, v in full_env.items()}
        self.errpath = os.path.join(sb.root, "lsp-stderr-%d.txt" % id(self))
        self.errf = open(self.errpath, "wb")
        self.proc = subprocess.Popen([sb.bin, "lsp"], cwd=sb.p(cwd_rel if cwd_rel is not None else root_rel), env=full_env,
                                     stdin=subprocess.PIPE, stdout=subprocess.PIPE, stderr=self.errf)
        self.q = queue.Queue()
        self.reader = threading.Thread(target=self._read_loop, daemon=True)
        self.reader.start()
        self.next_id = 1
        self.sent = 0
        self.received = 0
        self.log = []       # (direction, message) in wire order as seen by the client

    # ---- transport ---------------------------------------------------------------
    def _read_loop(self):
        f = self.proc.stdout
        try:
            while True:
                length = None
                while True:
                    line = f.readline()
                    if not line:
                        self.q.put(None)
                        return
                    line = line.strip()
                    if not line:
                        break
                    if line.lower().startswith(b"content-length:"):
                        length = int(line.split(b":")[1])
                if length is None:
                    continue
                body = b""
                while len(body) < length:
                    chunk = f.read(length - len(body))
                    if not chunk:
                        self.q.put(None)
                        return
                    body += chunk
                try:
                    self.q.put(json.loads(body.decode("utf-8")))
                except Exception as e:  # undecodable frame: surface it to the oracle
                    self.q.put({"__undecodable__": repr(body[:200]), "error": str(e)})
        except Exception:
            self.q.put(None)

    def send(self, obj):
        try:
            self.proc.stdin.write(frame(obj))
            self.proc.stdin.flush()
        except (BrokenPipeError, OSError):
            raise ServerDied("write failed")
        self.sent += 1
        self.log.append(["c", obj])

    def recv(self, timeout=HANG_S):
        try:
            m = self.q.get(timeout=timeout)
        except queue.Empty:
            raise NoReply("no server message within %.0fs" % timeout)
        if m is None:
            raise ServerDied("stdout closed")
        self.received += 1
        self.log.append(["s", m])
        return m

    def alive(self):
        return self.proc.poll() is None

    # ---- protocol ---------------------------------------------------------------------
    def initialize(self, root_uri=True):
        params = {"processId": None, "capabilities": {}, "rootUri": path_to_uri(self.root_abs) if root_uri else None}
        self.send({"jsonrpc": "2.0", "id": 0, "method": "initialize", "params": params})
        r = self.recv()
        self.send({"jsonrpc": "2.0", "method": "initialized", "params": {}})
        # Barrier: the server indexes the workspace *after* answering `initialize` and before it enters its message loop.  Without
        # a round trip here, a disk fault injected right after initialisation would race against that indexing (which files the index
        # holds would depend on timing, not on the seed).  The first answered request proves the index is complete.
        rid = self.next_id
        self.next_id += 1
        self.send({"jsonrpc": "2.0", "id": rid, "method": "workspace/symbol", "params": {"query": "ucgsim-barrier-no-such-symbol"}})
        b = self.recv()
        if b.get("id") != rid:
            raise NoReply("unexpected message instead of the barrier reply: %r" % (b,))
        return r

    def notify(self, method, params):
        self.send({"jsonrpc": "2.0", "method": method, "params": params})

    def request(self, method, params):
        rid = self.next_id
        self.next_id += 1
        self.send({"jsonrpc": "2.0", "id": rid, "method": method, "params": params})
        return rid

    def shutdown(self):
        """-> (clean: bool, exit status or None, note)"""
        try:
            rid = self.request("shutdown", None)
            r = self.recv()
            if r.get("id") != rid:
                return False, None, "unexpected reply to shutdown: %r" % (r,)
            self.notify("exit", None)
        except (ServerDied, NoReply) as e:
            return False, self.proc.poll(), "shutdown failed: %s" % e
        try:
            self.proc.stdin.close()
        except Exception:
            pass
        try:
            st = self.proc.wait(timeout=HANG_S)
        except subprocess.TimeoutExpired:
            return False, None, "server did not exit after shutdown+exit"
        return st == 0, st, ""

    def stderr_text(self):
        try:
            self.errf.flush()
            with open(self.errpath, "rb") as f:
                return self.sb.norm(f.read().decode("utf-8", "replace"))
        except Exception:
            return ""

    def kill(self):
        try:
            if self.proc.poll() is None:
                self.proc.kill()
            self.proc.wait(timeout=5)
        except Exception:
            pass
        for f in (self.proc.stdin, self.proc.stdout, self.errf):
            try:
                f.close()
            except Exception:
                pass


def split_lines(text):
    """LSP line breaks: CRLF, LF, CR.  Returns the list of lines (without terminators);
    a text with N breaks has N+1 lines."""
    lines = []
    cur = []
    i = 0
    n = len(text)
    while i < n:
        c = text[i]
        if c == "\r":
            lines.append("".join(cur))
            cur = []
            if i + 1 < n and text[i + 1] == "\n":
                i += 1
        elif c == "\n":
            lines.append("".join(cur))
            cur = []
        else:
            cur.append(c)
        i += 1
    lines.append("".join(cur))
    return lines


def utf16_len(s):
    return len(s.encode("utf-16-le")) // 2
