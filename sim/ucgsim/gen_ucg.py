"""Document texts for the language-server sessions: a compact grammar-based generator, the
repository's own .ucg corpus, token-level mutations of both, and arbitrary UTF-8."""
import os
import re

from . import lsp_client, subject

MAX_TEXT = 4096
_CORPUS = None

TOKEN_RE = re.compile(r'"(?:[^"\\]|\\.)*"|//[^\n]*|[0-9]+(?:\.[0-9]+)?|[A-Za-z_][A-Za-z0-9_-]*|\s+|.', re.S)


def corpus():
    """Every UTF-8 .ucg text <= 4 KiB in the repository (integration tests, std, examples, example_errors, fuzz corpus),
    in sorted path order, de-duplicated."""
    global _CORPUS
    if _CORPUS is not None:
        return _CORPUS
    repo = subject.repo_dir()
    paths = []
    for top in ("integration_tests", "std", "examples", "example_errors", "fuzz/corpus"):
        base = os.path.join(repo, top)
        for dp, dn, fn in os.walk(base):
            dn.sort()
            for f in sorted(fn):
                if top == "fuzz/corpus" or f.endswith(".ucg"):
                    paths.append(os.path.join(dp, f))
    seen = set()
    out = []
    for p in paths:
        try:
            if os.path.getsize(p) > MAX_TEXT:
                continue
            with open(p, "rb") as f:
                t = f.read().decode("utf-8")
        except Exception:
            continue
        if "\x00" in t or t in seen:
            continue
        seen.add(t)
        out.append(t)
    _CORPUS = out
    return out


IDENTS = ["a", "b", "cfg", "host", "port", "name", "items", "base", "mk", "tpl", "val", "x1", "long_name", "db-conf", "f", "g", "m"]
STRS = ["", "x", "hello", "a b", "@", "v1.2", "k=v", "path/to", "é", "日本", "q\\\"q", "tab\\t"]


def _ident(rng):
    return rng.choice(IDENTS)


def _value(rng, depth, names):
    k = rng.weighted([("int", 4), ("str", 4), ("bool", 1), ("null", 1), ("float", 1), ("env", 1), ("tuple", 3 if depth < 3 else 0), ("list", 2 if depth < 3 else 0),
                      ("ref", 3 if names else 0), ("sel", 2 if names else 0), ("arith", 2), ("fmt", 1), ("call", 1 if names else 0),
                      ("select", 1 if depth < 2 else 0), ("range", 1), ("group", 1 if depth < 3 else 0), ("cmp", 1)])
    if k == "int":
        return str(rng.below(1000))
    if k == "float":
        return "%d.%d" % (rng.below(100), rng.below(100))
    if k == "str":
        return '"' + rng.choice(STRS) + '"'
    if k == "env":
        return "env." + rng.choice(["HOME", "USER", "PATH", "DB_HOST"])
    if k == "bool":
        return rng.choice(["true", "false"])
    if k == "null":
        return "NULL"
    if k == "tuple":
        n = rng.between(0, 4)
        flds = []
        for _ in range(n):
            fname = _ident(rng)
            c = (" :: " + rng.choice(['""', "0", "in 1..10", '"a" | "b"'])) if rng.chance(10) else ""
            flds.append("%s%s = %s" % (fname, c, _value(rng, depth + 1, names)))
        sep = ",\n" + "  " * (depth + 1) if rng.chance(40) else ", "
        return "{" + sep.join(flds) + ("," if flds and rng.chance(30) else "") + "}"
    if k == "list":
        n = rng.between(0, 4)
        return "[" + ", ".join(_value(rng, depth + 1, names) for _ in range(n)) + "]"
    if k == "ref":
        return rng.choice(names)
    if k == "sel":
        return rng.choice(names) + "." + rng.choice([_ident(rng), "0", '"' + _ident(rng) + '"', _ident(rng) + "." + _ident(rng)])
    if k == "arith":
        return "%s %s %s" % (_value(rng, depth + 1, names), rng.choice(["+", "-", "*", "/", "%%"]), _value(rng, depth + 1, names))
    if k == "cmp":
        return "%s %s %s" % (_value(rng, depth + 1, names), rng.choice(["==", "!=", ">", "<", ">=", "<=", "&&", "||", "in", "is"]), _value(rng, depth + 1, names))
    if k == "fmt":
        return '"%s" %% (%s)' % (rng.choice(["@", "x-@-y", "@ and @", "\\\\@ lit"]), ", ".join(_value(rng, depth + 1, names) for _ in range(rng.between(1, 2))))
    if k == "call":
        return "%s(%s)" % (rng.choice(names), ", ".join(_value(rng, depth + 1, names) for _ in range(rng.between(0, 2))))
    if k == "select":
        return 'select (%s, %s) => { a = %s, b = %s }' % (_value(rng, depth + 1, names), _value(rng, depth + 1, names),
                                                            _value(rng, depth + 1, names), _value(rng, depth + 1, names))
    if k == "range":
        return "%d..%d" % (rng.below(5), rng.below(12))
    if k == "group":
        return "(" + _value(rng, depth + 1, names) + ")"
    return "1"


def gen_program(rng, lib_paths=(), std=True):
    """A mostly well-formed program of 1-12 statements.  lib_paths: import paths (relative to the document) that exist in the workspace."""
    names = []
    L = []
    if rng.chance(25):
        L.append("// " + rng.choice(["config for service", "generated — do not edit", "Ünïcödé comment ✓", ""]))
    n = rng.between(1, 12)
    for _ in range(n):
        k = rng.weighted([("let", 8), ("let_func", 2), ("let_module", 1), ("import", 2 if (lib_paths or std) else 0), ("assert", 1), ("constraint", 1),
                          ("let_constrained", 1), ("funcop", 1 if names else 0), ("copy", 1 if names else 0), ("expr", 1), ("comment", 1), ("blank", 1),
                          ("include", 1)])
        if k == "let":
            nm = _ident(rng)
            L.append("let %s = %s;" % (nm, _value(rng, 0, names)))
            names.append(nm)
        elif k == "let_func":
            nm = _ident(rng)
            args = rng.sample(["x", "y", "acc", "item"], rng.between(1, 2))
            L.append("let %s = func (%s) => %s;" % (nm, ", ".join(args), _value(rng, 1, names + args)))
            names.append(nm)
        elif k == "let_module":
            nm = _ident(rng)
            L.append("let %s = module {\n    arg = %s,\n} => %s{\n    let inner = mod.arg;\n    let res = %s;\n};" % (
                nm, _value(rng, 2, names), "(res) " if rng.chance(50) else "", _value(rng, 2, names + ["inner", "mod"])))
            names.append(nm)
        elif k == "import":
            nm = _ident(rng)
            cands = list(lib_paths) + (["std/lists.ucg", "std/tuples.ucg", "std/strings.ucg", "std/testing.ucg", "std/schema.ucg"] if std else [])
            L.append('let %s = import "%s";' % (nm, rng.choice(cands)))
            names.append(nm)
        elif k == "include":
            nm = _ident(rng)
            L.append('let %s = include %s "%s";' % (nm, rng.choice(["str", "json", "yaml", "toml", "b64"]), rng.choice(["data.json", "./x.txt", "missing.yaml"])))
            names.append(nm)
        elif k == "assert":
            L.append('assert {\n    ok = %s,\n    desc = "%s",\n};' % (_value(rng, 1, names), rng.choice(STRS)))
        elif k == "constraint":
            nm = _ident(rng)
            L.append("constraint %s = %s;" % (nm, rng.choice(["in 1..65535", '"debug" | "info"', "in 0.. | 8080", "in ..10"])))
            names.append(nm)
        elif k == "let_constrained":
            nm = _ident(rng)
            L.append("let %s :: %s = %s;" % (nm, rng.choice(['""', "0", "in 1..10", '"a" | "b"', "{}", "[]"] + names[:2]), _value(rng, 1, names)))
            names.append(nm)
        elif k == "funcop":
            nm = _ident(rng)
            op = rng.choice(["map", "filter", "reduce"])
            if op == "reduce":
                L.append("let %s = reduce(func (acc, item) => %s, %s, %s);" % (nm, _value(rng, 2, names + ["acc", "item"]), _value(rng, 2, names), rng.choice(names)))
            else:
                L.append("let %s = %s(func (item) => %s, %s);" % (nm, op, _value(rng, 2, names + ["item"]), rng.choice(names + ["[1, 2, 3]"])))
            names.append(nm)
        elif k == "copy":
            nm = _ident(rng)
            L.append("let %s = %s{%s = %s};" % (nm, rng.choice(names), _ident(rng), _value(rng, 1, names)))
            names.append(nm)
        elif k == "expr":
            L.append(_value(rng, 1, names) + ";")
        elif k == "comment":
            L.append("// " + rng.choice(["note", "TODO: fix", "日本語のコメント", "a // b"]))
        elif k == "blank":
            L.append("")
    if rng.chance(30) and names:
        L.append("out %s %s;" % (rng.choice(["json", "yaml", "toml", "env", "flags"]), rng.choice(names)))
    eol = rng.weighted([("\n", 8), ("\r\n", 2), ("\r", 1)])
    text = eol.join(L)
    if rng.chance(80):
        text += eol
    return text[:MAX_TEXT]


def gen_simple(rng, lib_paths=(), exports=None):
    """Small programs that are well-typed by construction (so that they build and hover/definition have something to say).
    exports: import path -> [(selector suffix, "int"|"str"|"other")] known to be exported by that workspace library; used so that
    documents really depend on the shapes of what they import (also through a library that imports another library)."""
    L = []
    names = []
    tuples = []
    if lib_paths and rng.chance(70):
        known = [p for p in lib_paths if exports and exports.get(p)]
        path = rng.choice(known) if known and rng.chance(80) else rng.choice(list(lib_paths))
        L.append('let lib = import "%s";' % path)
        for k in range(rng.between(1, 3) if exports and exports.get(path) else 0):
            suffix, typ = rng.choice(exports[path])
            if typ == "int":
                L.append("let used%d = lib%s + %d;" % (k, suffix, rng.below(9)))
            elif typ == "str":
                L.append('let used%d = lib%s + "-%d";' % (k, suffix, k))
            else:
                L.append("let used%d = lib%s;" % (k, suffix))
    if rng.chance(40):
        L.append('let lists = import "std/lists.ucg";')
        L.append("let n_items = lists.len([1, 2, 3]);")
        names.append("n_items")
    for i in range(rng.between(1, 8)):
        nm = "%s%d" % (rng.choice(["a", "cfg", "port", "name", "item"]), i)
        k = rng.weighted([("int", 3), ("str", 3), ("tuple", 3), ("list", 1), ("sum", 2 if names else 0), ("field", 2 if tuples else 0), ("func", 1), ("env", 1),
                          ("self_copy", 2 if tuples else 0)])
        if rng.chance(20):
            L.append("// %s" % rng.choice(["the port", "docs for the next binding", "ünï"]))
        if k == "int":
            L.append("let %s = %d;" % (nm, rng.below(9999)))
            names.append(nm)
        elif k == "str":
            L.append('let %s = "%s";' % (nm, rng.choice(["x", "hello world", "v1"])))
        elif k == "tuple":
            L.append('let %s = {\n    host = "h%d",\n    port = %d,\n    nested = {deep = true},\n};' % (nm, i, rng.below(9999)))
            tuples.append(nm)
        elif k == "list":
            L.append("let %s = [1, 2, %d];" % (nm, rng.below(99)))
        elif k == "sum":
            L.append("let %s = %s + %d;" % (nm, rng.choice(names), rng.below(10)))
            names.append(nm)
        elif k == "field":
            t = rng.choice(tuples)
            L.append("let %s = %s.%s;" % (nm, t, rng.choice(["host", "port", "nested.deep"])))
        elif k == "self_copy":
            # copy of a tuple with a nested override that reads the original through `self`
            t = rng.choice(tuples)
            L.append("let %s = %s{nested = self.nested{deep = false}, port = self.port + 1};" % (nm, t))
            tuples.append(nm)
        elif k == "func":
            L.append("let %s = func (x, y) => x + y;" % nm)
        elif k == "env":
            L.append("let %s = env.%s;" % (nm, rng.choice(["HOME", "USER_NAME"])))
    eol = rng.weighted([("\n", 8), ("\r\n", 1)])
    return eol.join(L) + eol


MUT_POOL = ["let", "=", ";", "{", "}", "(", ")", "[", "]", ",", ".", "import", "func", "=>", "module", "select", "\"", "//", "::", "in", "..", "|",
            "assert", "out", "NULL", "@", "%", "é", "\n", "\r\n", " ", "0", "x", "mod", "self", "env", "include", "fail", "not", "TRACE", "convert", "constraint"]


LAST_MUTATION_SPOTS = []


def mutate(rng, text, n=None):
    """Token-level mutation.  The character offsets (in the result) where mutations happened are left in LAST_MUTATION_SPOTS, so that a
    caller can aim later requests at them (faults are worth most where something is in flight)."""
    del LAST_MUTATION_SPOTS[:]
    toks = TOKEN_RE.findall(text)
    if not toks:
        return rng.choice(MUT_POOL)
    n = n if n is not None else rng.weighted([(1, 5), (2, 3), (3, 1), (6, 1)])
    for _ in range(n):
        if not toks:
            break
        i = rng.below(len(toks))
        op = rng.weighted([("delete", 4), ("dup", 2), ("swap", 2), ("replace", 3), ("insert", 2), ("truncate", 1), ("split", 1), ("drop_prefix", 1), ("leading_stray", 1)])
        if op == "delete":
            del toks[i]
        elif op == "dup":
            toks.insert(i, toks[i])
        elif op == "swap" and len(toks) > 1:
            j = rng.below(len(toks))
            toks[i], toks[j] = toks[j], toks[i]
        elif op == "replace":
            toks[i] = rng.choice(MUT_POOL)
        elif op == "insert":
            toks.insert(i, rng.choice(MUT_POOL))
        elif op == "truncate":
            toks = toks[:i]
        elif op == "drop_prefix":
            toks = toks[i:]
        elif op == "leading_stray":
            # a stray token at the very beginning of the document
            toks.insert(0, rng.choice([".", ",", ")", "}", "]", "=", ";", "::", "=>", "|", "..", "@", '"']))
            i = 0
        elif op == "split" and len(toks[i]) > 1:
            k = rng.between(1, len(toks[i]) - 1)
            toks[i:i + 1] = [toks[i][:k], rng.choice([" ", "\n", ""]), toks[i][k:]]
        if op == "drop_prefix":
            i = 0
        LAST_MUTATION_SPOTS.append(len("".join(toks[:min(i, len(toks))])))
    return "".join(toks)[:MAX_TEXT]


_LET_LIT = re.compile(r'^(let\s+[A-Za-z_][A-Za-z0-9_-]*\s*=\s*)("(?:[^"\\]|\\.)*"|[0-9]+)(\s*;)', re.M)


def semantic_edit(rng, text):
    """An edit an importer can see: a top-level binding changes its type, disappears or is renamed (the text stays well-formed)."""
    ms = list(_LET_LIT.finditer(text))
    if not ms:
        return mutate(rng, text)
    m = rng.choice(ms)
    k = rng.weighted([("retype", 5), ("remove", 2), ("rename", 2)])
    if k == "retype":
        lit = m.group(2)
        new = str(rng.below(100)) if lit.startswith('"') else '"retyped"'
        return text[:m.start(2)] + new + text[m.end(2):]
    if k == "remove":
        end = text.find("\n", m.end())
        return text[:m.start()] + text[(end + 1) if end >= 0 else len(text):]
    return text[:m.start()] + m.group(1).replace("let ", "let renamed_", 1) + m.group(2) + m.group(3) + text[m.end():]


def random_utf8(rng):
    n = rng.weighted([(0, 1), (rng.between(1, 20), 4), (rng.between(20, 400), 3), (rng.between(400, 1500), 1)])
    alpha = ["a", "z", "0", " ", "\n", "\r\n", "\r", "\t", '"', "'", "\\", "{", "}", ";", "=", "/", "*", "@", "%", ".", ",", "(", ")", "[", "]", "|", ":",
             "é", "ß", "日", "本", "́", "​", "﻿", "\U0001F600", "\U00010348", " ", "\u0085", "\x0b", "\x0c", "\x1b", "\x7f",
             "let ", "import ", "//", "func", "=>"]
    return "".join(rng.choice(alpha) for _ in range(n))[:MAX_TEXT]


def gen_text(rng, lib_paths=(), std=True, exports=None):
    """-> (class, text)"""
    k = rng.weighted([("generated", 14), ("simple", 8), ("corpus", 6), ("mutated_generated", 6), ("mutated_corpus", 4), ("random", 4), ("empty", 2), ("big", 1)])
    if k == "generated":
        return k, gen_program(rng, lib_paths, std)
    if k == "simple":
        return k, gen_simple(rng, lib_paths, exports)
    if k == "corpus":
        c = corpus()
        return k, rng.choice(c) if c else gen_program(rng, lib_paths, std)
    if k == "mutated_generated":
        return k, mutate(rng, gen_program(rng, lib_paths, std))
    if k == "mutated_corpus":
        c = corpus()
        return k, mutate(rng, rng.choice(c) if c else gen_program(rng, lib_paths, std))
    if k == "random":
        return k, random_utf8(rng)
    if k == "big":
        # a document well beyond one pipe buffer (64 KiB) whose bulk is cheap to analyse (comment lines): the point is the transport,
        # not the analyser's speed - the harness's 30 s hang bound must never be reached by honest work
        body = gen_simple(rng, lib_paths, exports)
        filler = "".join("// filler line %d %s\n" % (i, "x" * 60) for i in range(1000))
        return k, filler[:70000] + body + (rng.choice(["", "let x = ;", "\"unterminated"]))
    return k, rng.choice(["", "\n", " ", "\r\n\r\n", "//"])


def offset_to_position(text, off):
    """character offset -> (line, UTF-16 character) with LSP line breaks"""
    off = max(0, min(off, len(text)))
    before = lsp_client.split_lines(text[:off])
    return len(before) - 1, lsp_client.utf16_len(before[-1])


def sample_position(rng, text, hot=None):
    """-> (class, line, character) in LSP coordinates (UTF-16 units).  hot: character offsets worth aiming at (recent mutation sites)."""
    lines = lsp_client.split_lines(text)
    if hot and rng.chance(35):
        off = rng.choice(hot) + rng.choice([-1, 0, 0, 1, 1, 2, 3])
        line, ch = offset_to_position(text, off)
        return "near_mutation", line, ch
    k = rng.weighted([("token_start", 6), ("inside_token", 4), ("line_end", 2), ("past_line_end", 1), ("one_past_last_line", 1),
                      ("far_outside", 1), ("u32_max", 1), ("origin", 1), ("near_non_ascii", 3), ("first_tokens", 1)])
    if k == "near_non_ascii":
        cands = [i for i, l in enumerate(lines) if any(ord(c) > 127 for c in l)]
        if cands:
            li = rng.choice(cands)
            cand_idx = [n for n, c in enumerate(lines[li]) if ord(c) > 127]
            in_string = [n for n in cand_idx if lines[li][:n].count('"') % 2 == 1]
            idx = rng.choice(in_string) if in_string and rng.chance(75) else rng.choice(cand_idx)
            byte_off = len(lines[li][:idx].encode("utf-8"))
            # around the character's first byte, counted in bytes and in UTF-16 units
            return k, li, rng.choice([byte_off, byte_off + 1, byte_off + 2, byte_off + 3, lsp_client.utf16_len(lines[li][:idx]) + 1])
        k = "inside_token"
    if k == "first_tokens":
        spans = [(m.start(), m.end()) for m in TOKEN_RE.finditer(lines[0]) if not m.group().isspace()][:3]
        if spans:
            s_, e_ = rng.choice(spans)
            return k, 0, lsp_client.utf16_len(lines[0][:rng.between(s_, max(s_, e_ - 1))])
        k = "origin"
    if k in ("token_start", "inside_token"):
        # pick a token by scanning a random non-empty line
        cands = [i for i, l in enumerate(lines) if l.strip()]
        if cands:
            li = rng.choice(cands)
            spans = [(m.start(), m.end()) for m in TOKEN_RE.finditer(lines[li]) if not m.group().isspace()]
            idents = [(m.start(), m.end()) for m in TOKEN_RE.finditer(lines[li]) if re.match(r"[A-Za-z_]", m.group())]
            if idents and rng.chance(60):
                spans = idents
            if spans:
                s, e = rng.choice(spans)
                off = s if k == "token_start" else rng.between(s, max(s, e - 1))
                return k, li, lsp_client.utf16_len(lines[li][:off])
        return "origin", 0, 0
    if k == "line_end":
        li = rng.below(len(lines))
        return k, li, lsp_client.utf16_len(lines[li])
    if k == "past_line_end":
        li = rng.below(len(lines))
        return k, li, lsp_client.utf16_len(lines[li]) + rng.between(1, 50)
    if k == "one_past_last_line":
        return k, len(lines), rng.below(3)
    if k == "far_outside":
        return k, len(lines) + rng.between(1, 100000), rng.below(100000)
    if k == "u32_max":
        which = rng.below(3)
        return k, (4294967295 if which != 1 else rng.below(len(lines))), (4294967295 if which != 0 else 0)
    return k, 0, 0
