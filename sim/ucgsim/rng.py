"""Seeded PRNG owned by the harness (not `random`), so a run seed means the same
thing under every Python version.  splitmix64 for seeding/mixing, xoshiro256** for
the stream."""
import hashlib

M64 = (1 << 64) - 1


def splitmix64(x):
    x = (x + 0x9E3779B97F4A7C15) & M64
    z = x
    z = ((z ^ (z >> 30)) * 0xBF58476D1CE4E5B9) & M64
    z = ((z ^ (z >> 27)) * 0x94D049BB133111EB) & M64
    return x, z ^ (z >> 31)


def mix(seed, *parts):
    """Derive a child seed from a parent seed and labels (ints or strings)."""
    h = hashlib.sha256()
    h.update(str(int(seed)).encode())
    for p in parts:
        h.update(b"\x00")
        h.update(str(p).encode())
    return int.from_bytes(h.digest()[:8], "big")


def _rotl(x, k):
    return ((x << k) | (x >> (64 - k))) & M64


class Rng:
    def __init__(self, seed):
        self.seed = int(seed) & M64
        s = self.seed
        st = []
        for _ in range(4):
            s, z = splitmix64(s)
            st.append(z)
        self.s = st
        self.draws = 0

    def u64(self):
        s = self.s
        result = (_rotl((s[1] * 5) & M64, 7) * 9) & M64
        t = (s[1] << 17) & M64
        s[2] ^= s[0]
        s[3] ^= s[1]
        s[1] ^= s[2]
        s[0] ^= s[3]
        s[2] ^= t
        s[3] = _rotl(s[3], 45)
        self.draws += 1
        return result

    def below(self, n):
        if n <= 0:
            raise ValueError("below(%r)" % (n,))
        # rejection sampling for exact uniformity
        lim = M64 - (M64 + 1) % n
        while True:
            v = self.u64()
            if v <= lim:
                return v % n

    def between(self, lo, hi):
        """inclusive"""
        return lo + self.below(hi - lo + 1)

    def chance(self, num, den=100):
        return self.below(den) < num

    def choice(self, seq):
        return seq[self.below(len(seq))]

    def weighted(self, pairs):
        """pairs: [(item, weight)]"""
        tot = sum(w for _, w in pairs)
        r = self.below(tot)
        for it, w in pairs:
            if r < w:
                return it
            r -= w
        raise AssertionError

    def shuffle(self, seq):
        seq = list(seq)
        for i in range(len(seq) - 1, 0, -1):
            j = self.below(i + 1)
            seq[i], seq[j] = seq[j], seq[i]
        return seq

    def sample(self, seq, k):
        return self.shuffle(seq)[:k]

    def subset(self, seq, num=50, den=100):
        return [x for x in seq if self.chance(num, den)]

    def token(self, n=8):
        al = "abcdefghijklmnopqrstuvwxyz0123456789"
        return "".join(al[self.below(36)] for _ in range(n))

    def fork(self, *label):
        return Rng(mix(self.u64(), *label))
