"""Seeded search driver: runs -> (world, history, oracle) -> violations -> shrink ->
replay file -> evidence.  A run is a pure function of (run seed, subject binary)."""
import hashlib
import json
import multiprocessing
import os
import sys
import time
import traceback

from . import rng as rngmod
from . import sandbox, subject

DEFAULT_SEED = 20260925
OUT_DIR = os.path.join(subject.VERIF, "out")
EVIDENCE_DIR = os.path.join(subject.VERIF, "evidence")
KNOWN_FILE = os.path.join(subject.VERIF, "known_findings.json")
SHRINK_BUDGET = 300
SHRINK_WALL_S = 240


def canon(obj):
    return json.dumps(obj, sort_keys=True, ensure_ascii=True, separators=(",", ":"))


def digest(obj):
    return hashlib.sha256(canon(obj).encode()).hexdigest()[:16]


class Result:
    """What one execution of one world produced."""

    def __init__(self):
        self.violations = []   # [{clause, signature, detail}]
        self.faults = {}       # fault kind -> times it actually fired (observed effect)
        self.probes = {}       # reach probe -> hits
        self.keys = []         # [(abstract key, nontrivial bool)]
        self.invocations = 0
        self.steps = 0         # logical steps (invocations + messages)
        self.history = []      # normalised history (determinism diff / samples)
        self.anomalies = []
        self.metrics = {}
        self.harness_error = None

    def violate(self, clause, cause, detail):
        self.violations.append({"clause": clause, "signature": "%s · %s" % (clause, cause), "detail": detail})

    def fault(self, kind, n=1):
        self.faults[kind] = self.faults.get(kind, 0) + n

    def probe(self, name, n=1):
        self.probes[name] = self.probes.get(name, 0) + n

    def metric(self, name, n=1):
        self.metrics[name] = self.metrics.get(name, 0) + n

    def key(self, k, nontrivial):
        self.keys.append((k if isinstance(k, str) else canon(k), bool(nontrivial)))

    def pack(self, with_history=False):
        d = {"violations": self.violations, "faults": self.faults, "probes": self.probes, "keys": self.keys,
             "invocations": self.invocations, "steps": self.steps, "anomalies": self.anomalies[:5],
             "n_anomalies": len(self.anomalies), "metrics": self.metrics,
             "hist": digest(self.history), "harness_error": self.harness_error}
        if with_history:
            d["history"] = self.history
        return d


def execute(mod, world):
    """Run one world in a fresh sandbox; never raises (a crash of the harness is
    reported as harness_error -> exit 2, never as a violation)."""
    res = Result()
    sb = sandbox.Sandbox()
    try:
        mod.execute(world, sb, res)
    except Exception:
        res.harness_error = traceback.format_exc()
    finally:
        res.invocations += sb.invocations
        res.steps += sb.invocations
        res.anomalies.extend(sb.anomalies)
        sb.close()
    return res


_MOD = None
_TIER = None
_PSEED = None


def _init(modname, tier, pseed):
    global _MOD, _TIER, _PSEED
    _MOD = load_check(modname)
    _TIER = tier
    _PSEED = pseed


def _work(idx):
    run_seed = rngmod.mix(_PSEED, "run", idx)
    try:
        world = _MOD.generate(rngmod.Rng(run_seed), _TIER, idx)
    except Exception:
        r = Result()
        r.harness_error = traceback.format_exc()
        d = r.pack()
        d.update(index=idx, run_seed=run_seed, world=None)
        return d
    res = execute(_MOD, world)
    d = res.pack(with_history=(idx < 3))
    d["index"] = idx
    d["run_seed"] = run_seed
    keep_world = bool(res.violations) or idx < 3 or res.harness_error
    d["world"] = world if keep_world else None
    return d


def load_check(name):
    import importlib
    return importlib.import_module("checks." + name.lower())


def load_known(prop):
    if not os.path.exists(KNOWN_FILE):
        return []
    with open(KNOWN_FILE) as f:
        data = json.load(f)
    return [e for e in data.get("findings", []) if e.get("property") == prop]


def _shrink_work(args):
    modname, world, signature = args
    mod = load_check(modname)
    r = execute(mod, world)
    if r.harness_error:
        return False
    return any(v["signature"] == signature for v in r.violations)


def shrink(mod, world, signature, log, workers=16):
    """Greedy delta debugging on the abstract world; keeps a candidate only when the same
    violation signature persists.  Candidates are evaluated in parallel batches; the first
    reproducing candidate in generation order wins, so the result does not depend on timing."""
    import itertools
    budget = SHRINK_BUDGET
    tried = 0
    cur = world
    name = mod.__name__.split(".")[-1]
    t_end = time.time() + SHRINK_WALL_S     # violations that consist of a hang cost 30 s per candidate: bound the wall time as well
    with multiprocessing.Pool(workers) as pool:
        improved = True
        while improved and budget > 0 and time.time() < t_end:
            improved = False
            gen = mod.shrink_candidates(cur)
            seen = set()
            while budget > 0 and time.time() < t_end:
                batch = []
                for cand in gen:
                    c = canon(cand)
                    if c in seen or c == canon(cur):
                        continue
                    seen.add(c)
                    batch.append(cand)
                    if len(batch) >= min(workers, budget):
                        break
                if not batch:
                    break
                budget -= len(batch)
                tried += len(batch)
                oks = pool.map(_shrink_work, [(name, c, signature) for c in batch], chunksize=1)
                hit = next((c for c, ok in zip(batch, oks) if ok), None)
                if hit is not None:
                    cur = hit
                    improved = True
                    break
    log("  shrink: %d candidate executions" % tried)
    return cur


def write_replay(prop, seed, d, world, violation, rendered):
    os.makedirs(os.path.join(OUT_DIR, "replays"), exist_ok=True)
    name = "%s-%s-%s.json" % (prop, hashlib.sha256(violation["signature"].encode()).hexdigest()[:8], d["run_seed"])
    path = os.path.join(OUT_DIR, "replays", name)
    with open(path, "w") as f:
        json.dump({"format": 1, "property": prop, "seed": seed, "run_index": d["index"], "run_seed": d["run_seed"],
                   "world": world, "violation": violation, "rendered": rendered,
                   "subject": {"repo": subject.repo_dir(), "rev": subject.repo_rev()}}, f, indent=1, sort_keys=True)
    return path


def replay(path, quiet=False):
    with open(path) as f:
        rp = json.load(f)
    mod = load_check(rp["property"])
    res = execute(mod, rp["world"])
    if res.harness_error:
        print("HARNESS-ERROR during replay:\n" + res.harness_error)
        return 2
    want = rp["violation"]["signature"]
    got = [v for v in res.violations if v["signature"] == want]
    if got:
        if not quiet:
            print("replay reproduces: %s" % want)
            print("  " + got[0]["detail"].replace("\n", "\n  ")[:3000])
            print("VIOLATION property=%s replay=%s" % (rp["property"], path))
        return 1
    if not quiet:
        print("replay did NOT reproduce %r; observed: %s" % (want, [v["signature"] for v in res.violations]))
    return 0


def known_matches(entry, signature):
    sigs = entry.get("signatures") or [entry.get("signature")]
    return signature in sigs


def run_check(prop, tier, seed, runs=None, workers=None, wall_cap=None, quiet=False):
    t0 = time.time()
    mod = load_check(prop)
    prop = mod.PROPERTY
    subject.build(verbose=not quiet)
    sandbox.sweep_stale()
    pseed = rngmod.mix(seed, prop)
    cfg = mod.TIERS[tier]
    runs = runs if runs is not None else cfg["runs"]
    wall_cap = wall_cap if wall_cap is not None else cfg.get("wall_cap", 600)
    workers = workers or int(os.environ.get("UCGSIM_WORKERS", "0")) or min(16, os.cpu_count() or 4)

    def log(msg):
        if not quiet:
            print(msg)
            sys.stdout.flush()

    log("check %s tier=%s seed=%d property-seed=%d runs=%d workers=%d" % (prop, tier, seed, pseed, runs, workers))

    # fixed scenarios first (exhaustive sub-spaces, pinned known findings)
    results = []
    capped = False
    indices = list(range(runs))
    with multiprocessing.Pool(workers, initializer=_init, initargs=(mod.__name__.split(".")[-1], tier, pseed)) as pool:
        it = pool.imap_unordered(_work, indices, chunksize=1)
        for d in it:
            results.append(d)
            if time.time() - t0 > wall_cap:
                capped = True
                pool.terminate()
                break
    results.sort(key=lambda d: d["index"])
    sandbox.sweep_stale()

    harness_errors = [d for d in results if d["harness_error"]]
    if harness_errors:
        print("HARNESS-ERROR in run %d (run seed %d):\n%s" % (harness_errors[0]["index"], harness_errors[0]["run_seed"],
                                                             harness_errors[0]["harness_error"]))

    # ---- aggregate -------------------------------------------------------
    faults, probes, metrics = {}, {}, {}
    keyset, nontrivial = set(), set()
    invocations = steps = n_anom = 0
    anomalies = []
    for d in results:
        for k, v in d["faults"].items():
            faults[k] = faults.get(k, 0) + v
        for k, v in d["probes"].items():
            probes[k] = probes.get(k, 0) + v
        for k, v in d["metrics"].items():
            metrics[k] = metrics.get(k, 0) + v
        for k, nt in d["keys"]:
            keyset.add(k)
            if nt:
                nontrivial.add(k)
        invocations += d["invocations"]
        steps += d["steps"]
        n_anom += d["n_anomalies"]
        if d["anomalies"] and len(anomalies) < 10:
            anomalies.append({"run": d["index"], "first": d["anomalies"][0]})
    for name in getattr(mod, "PROBES", []):
        probes.setdefault(name, 0)
    for name in getattr(mod, "FAULT_KINDS", []):
        faults.setdefault(name, 0)

    # ---- violations ---------------------------------------------------------
    known = load_known(prop)
    by_sig = {}
    for d in results:
        for v in d["violations"]:
            by_sig.setdefault(v["signature"], []).append((d, v))
    reported = []
    known_seen = []
    exit_code = 0
    for sig in sorted(by_sig, key=lambda s: by_sig[s][0][0]["index"]):
        d, v = by_sig[sig][0]
        log("violation class %r: %d run(s), first in run %d" % (sig, len(by_sig[sig]), d["index"]))
        if len(reported) >= 6:
            continue
        world = d["world"]
        small = shrink(mod, world, sig, log, workers) if hasattr(mod, "shrink_candidates") else world
        # confirm in a fresh execution; a violation that does not replay is a harness problem
        conf = execute(mod, small)
        cv = [x for x in conf.violations if x["signature"] == sig]
        if not cv:
            print("HARNESS-ERROR: violation %r did not reproduce on re-execution (run seed %d)" % (sig, d["run_seed"]))
            exit_code = max(exit_code, 2)
            continue
        rendered = mod.render(small) if hasattr(mod, "render") else None
        path = write_replay(prop, seed, d, small, cv[0], rendered)
        entry = next((e for e in known if e.get("status") == "open" and known_matches(e, sig)), None)
        if entry is not None:
            known_seen.append(entry["id"])
            log("  matches open known finding %s (minimised replay %s)" % (entry["id"], path))
            continue
        reported.append({"signature": sig, "replay": path, "runs": len(by_sig[sig]), "detail": cv[0]["detail"][:2000]})
        print("  " + cv[0]["detail"].replace("\n", "\n  ")[:3000])
        print("VIOLATION property=%s replay=%s" % (prop, path))
        exit_code = max(exit_code, 1) if exit_code != 2 else 2

    # ---- pinned known findings (re-executed on every run) --------------------
    known_lines = []
    for e in known:
        if e.get("status") != "open":
            continue
        rp = e.get("pinned_replay")
        reproduced = None
        if rp:
            full = rp if os.path.isabs(rp) else os.path.join(subject.VERIF, rp)
            rc = replay(full, quiet=True)
            reproduced = (rc == 1)
            invocations += 0
        if reproduced or (reproduced is None and e["id"] in known_seen):
            line = "KNOWN-FINDING: property=%s %s" % (prop, e["what"])
            print(line)
            known_lines.append(line)
        else:
            log("note: open known finding %s did not reproduce on this tree" % e["id"])

    # ---- fixed findings: pinned replays must stay silent; if one fails again, say so -------
    for e in known:
        if e.get("status") != "fixed":
            continue
        for rp in e.get("pinned_replays", []):
            full = rp if os.path.isabs(rp) else os.path.join(subject.VERIF, rp)
            rc = replay(full, quiet=True)
            if rc == 1:
                print("regression of fixed finding %s (fix %s): %s" % (e["id"], e.get("commit"), e["what"]))
                print("VIOLATION property=%s replay=%s" % (prop, full))
                reported.append({"signature": "regression:" + e["id"], "replay": full, "runs": 1, "detail": e["what"]})
                exit_code = max(exit_code, 1) if exit_code != 2 else 2
            elif rc == 2:
                exit_code = 2

    # ---- determinism re-execution (thorough) ----------------------------------
    redo = cfg.get("reexecute", 0)
    diverged = []
    if redo and results and not capped:
        step = max(1, len(results) // redo)
        sample_idx = [d["index"] for d in results[::step]][:redo]
        _init(mod.__name__.split(".")[-1], tier, pseed)
        with multiprocessing.Pool(workers, initializer=_init, initargs=(mod.__name__.split(".")[-1], tier, pseed)) as pool:
            again = pool.map(_work, sample_idx, chunksize=1)
        byidx = {d["index"]: d for d in results}
        for a in again:
            if a["hist"] != byidx[a["index"]]["hist"]:
                diverged.append(a["index"])
        if diverged:
            print("HARNESS-ERROR: %d of %d re-executed runs diverged (indices %s)" % (len(diverged), len(again), diverged[:10]))
            exit_code = 2
        else:
            log("determinism: %d runs re-executed, all histories identical" % len(again))

    if harness_errors:
        exit_code = 2

    stuck = [p for p in getattr(mod, "PROBES", []) if probes.get(p, 0) == 0]
    if stuck:
        log("note: reach probes at zero: %s" % ", ".join(stuck))
        if tier == "thorough" and not capped and exit_code == 0 and runs >= cfg["runs"] and not getattr(mod, "PROBES_OPTIONAL", False):
            print("HARNESS-ERROR: reach probe(s) stuck at zero in a full thorough run: %s" % ", ".join(stuck))
            exit_code = 2

    wall = time.time() - t0
    samples = []
    for d in results[:3]:
        if d.get("world") is not None:
            s = {"run_index": d["index"], "run_seed": d["run_seed"], "world": d["world"]}
            if "history" in d:
                s["history"] = d["history"]
            samples.append(s)
    if not samples:
        samples = [{"note": "no run completed"}]
    ev = {
        "property_id": prop, "tier": tier, "seed": seed, "level": mod.LEVEL,
        "coverage": {
            "evaluations": max(1, len(results)),
            "distinct_nontrivial": len(nontrivial),
            "distinct_total": len(keyset),
            "rule": mod.RULE,
            "samples": samples,
            "runs_planned": runs, "runs_done": len(results), "wall_capped": capped,
            "invocations": invocations, "logical_steps": steps,
            "simulated_time": "not applicable: the subject has no clocks, timers or deadlines; logical steps are reported instead",
            "runs_per_hour": int(len(results) / wall * 3600) if wall > 0 else 0,
            "seeds_per_hour": int(len(results) / wall * 3600) if wall > 0 else 0,
            "invocations_per_hour": int(invocations / wall * 3600) if wall > 0 else 0,
            "faults_fired": faults,
            "reach_probes": probes,
            "metrics": metrics,
            "anomalies_total": n_anom, "anomalies_sample": anomalies,
            "known_findings_seen": known_lines,
            "violation_classes": reported,
            "real_vs_stub": getattr(mod, "REAL_VS_STUB", REAL_VS_STUB),
            "exhaustive": bool(cfg.get("exhaustive", False)),
            "determinism_reexecuted": redo if redo and not capped else 0,
            "determinism_diverged": len(diverged),
            "subject": {"repo": subject.repo_dir(), "rev": subject.repo_rev(), "binary": subject.binary_id()},
            "workers": workers,
        },
        "assumptions": getattr(mod, "ASSUMPTIONS", []) + COMMON_ASSUMPTIONS,
        "wall_s": round(wall, 2),
        "violations": len(reported),
    }
    # evidence under /verif/evidence describes /repo itself; runs against another tree (sensitivity experiments) go elsewhere
    evdir = EVIDENCE_DIR if os.path.abspath(subject.repo_dir()) == "/repo" else os.path.join(OUT_DIR, "evidence-other-tree")
    os.makedirs(evdir, exist_ok=True)
    with open(os.path.join(evdir, "%s.json" % prop), "w") as f:
        json.dump(ev, f, indent=1, sort_keys=True)
    log("%s: %d runs, %d invocations, %d distinct (%d non-trivial) histories, %d violation class(es), %d anomalies, %.1fs%s" % (
        prop, len(results), invocations, len(keyset), len(nontrivial), len(reported), n_anom, wall,
        " [wall cap hit: %d planned]" % runs if capped else ""))
    return exit_code


REAL_VS_STUB = {
    "real": ["the whole `ucg` release binary built from the repository working tree: clap argument parsing, main.rs driver, "
             "Environment and its caches, parser, typechecker, translator, VM, converters, language server and its stdio transport"],
    "stubbed": [],
    "simulated": ["directory tree (real tmpfs files), process environment, working directory, rlimits, argv order, "
                  "the LSP client, other programs editing files"],
}
COMMON_ASSUMPTIONS = [
    "Linux tmpfs and process semantics, CPython 3 stdlib, json module are trusted",
    "sampling, not proof: a clean batch is evidence only",
    "release profile as shipped (no debug assertions / overflow checks)",
]
