"""ucgsim: deterministic simulation with fault injection around the real ucg binary."""
