"""C20 — the language server survives any session and answers from the current text only.

System under simulation: the real `ucg lsp` process over stdio.  Simulated parties: one LSP client and
"other programs" editing the workspace behind the server's back (DESIGN.md §3 C20)."""
import json
import os
import re

from ucgsim import gen_ucg, lsp_client

PROPERTY = "C20"
LEVEL = "exploration"
RULE = ("sessions of 1-30 client messages (didOpen/didChange/didClose, hover, definition, completion, semanticTokens/full, workspace/symbol) over 1-3 "
        "documents in a generated workspace (0-4 library files, optional nested directory); document texts: grammar-generated programs, every .ucg "
        "text <= 4 KiB of the repository (tests, std, examples, fuzz corpus), token-level mutations of both, arbitrary UTF-8 incl. non-ASCII, CRLF and "
        "lone CR; positions at token starts, inside tokens, line ends, past the end, u32::MAX. Swarm modes: strict-history, overlay (documents import "
        "each other, unsaved text), disk-fault (files edited/removed/replaced by a directory or invalid UTF-8/created between messages), "
        "protocol-fault (duplicate open, change/close of unopened documents, empty and multiple content changes, $/cancelRequest, unknown "
        "notifications/requests), bursts of k pipelined messages. A case = one session; distinct = distinct (modes, sequence of (message kind, text "
        "class or position class)); non-trivial = >= 2 text-bearing messages for one document, or a fault of any kind")

TIERS = {
    "quick": {"runs": 520, "wall_cap": 230},
    "thorough": {"runs": 9000, "wall_cap": 3400, "reexecute": 60},
}
FAULT_KINDS = ["disk_write", "disk_remove", "disk_mkdir_over", "disk_nonutf8", "disk_create", "proto_duplicate_open", "proto_change_unopened",
               "proto_close_unopened", "proto_empty_change", "proto_multi_change", "proto_cancel", "proto_unknown_notification",
               "proto_unknown_request", "proto_request_closed_doc", "proto_ranged_change", "burst"]
PROBES = ["parse_error_then_valid", "valid_then_parse_error", "close_then_reopen", "duplicate_open", "change_never_opened", "request_closed_document",
          "position_beyond_last_line", "non_ascii_line", "crlf_text", "burst_ge_8", "disk_fault_then_close", "strict_final_compared",
          "fmt_oracle_rejects", "fmt_oracle_accepts", "build_oracle_succeeds", "overlay_episode_closed", "final_probes_compared", "workspace_root_via_symlink", "identical_text_resent", "library_tabs_restored", "version_restarts_after_reopen", "root_path_needs_percent_encoding", "definition_answered", "hover_answered", "semtok_nonempty",
          "wssym_nonempty", "completion_nonempty", "non_file_uri"]
REQS = ["hover", "definition", "completion", "semtok", "wssym"]

# what each fixed library text exports, as (selector suffix, type): lets documents depend on imported shapes
LIB_EXPORTS = [
    [(".x", "int"), (".name", "str")],
    [(".host", "str"), (".port", "int"), (".conf.host", "str"), (".conf.port", "int")],
    [(".default.port", "int"), (".default.tags", "other")],
    [(".derived.port", "int"), (".derived.host", "str"), (".base.host", "str"), (".base.conf.port", "int"), (".base.port", "int")],
    [(".total", "int"), (".items", "other")],
    [(".both.h", "str"), (".both.p", "int"), (".u.base.host", "str"), (".b.port", "int")],
]
LIB_TEXTS = [
    'let x = 1;\nlet name = "lib";\nlet mk = func (a) => {v = a};\n',
    'let host = "localhost";\nlet port = 8080;\nlet conf = {host = host, port = port};\n',
    '// shared shapes\nconstraint port_range = in 1..65535;\nlet default = {port :: port_range = 80, tags = ["a", "b"]};\n',
    'let base = import "./base.ucg";\nlet derived = base.conf{port = 9090};\n',
    'let items = [1, 2, 3];\nlet total = reduce(func (acc, item) => acc + item, 0, items);\nlet m = module {n = 1} => (r) { let r = mod.n + 1; };\n',
    'let b = import "./base.ucg";\nlet u = import "./util.ucg";\nlet both = {h = b.host, p = u.derived.port};\n',
]


def generate(rng, tier, idx):
    mode = {"strict": False, "overlay": False, "disk": False, "protocol": False, "burst": 1}
    if rng.chance(45):
        mode["strict"] = True
    else:
        mode["overlay"] = rng.chance(55)
        mode["disk"] = rng.chance(55)
    mode["protocol"] = rng.chance(35)
    if rng.chance(30):
        mode["burst"] = rng.choice([2, 3, 5, 8, 12, 30])
    nested = rng.chance(40)
    # ---- workspace on disk -----------------------------------------------------------------
    ws = []
    nlibs = rng.between(0, 5)
    lib_names = ["base.ucg", "shapes.ucg", "util.ucg", "more.ucg", "app.ucg"]
    for i in range(nlibs):
        d = "libs/" if (nested and rng.chance(50)) else ""
        fixed = (i + 1) % 5 if (i == 0 or rng.chance(75)) else None
        if i == 4:
            # the diamond's root: imports the leaf (base.ucg) and the intermediate file (util.ucg, which imports base.ucg itself)
            fixed = 5 if ws[2].get("fixed") == 3 and not ws[2]["path"].startswith("libs/") else None
        text = LIB_TEXTS[fixed] if fixed is not None else gen_ucg.gen_program(rng, (), True)
        if i == 0:
            d = ""
        if "import \"./base.ucg\"" in text and d:
            text = text.replace("./base.ucg", "../base.ucg")
        ws.append({"path": d + lib_names[i], "text": text, "fixed": fixed})
    if rng.chance(12):
        # files the start-up index leaves out (`*_test.ucg`), importing each other: a cycle that exists on disk only
        ws.append({"path": "checks_test.ucg", "text": 'let h = import "./helpers_test.ucg";\nlet ok = true;\nassert {ok = ok, desc = "checks"};\n', "fixed": None})
        ws.append({"path": "helpers_test.ucg", "text": 'let c = import "./checks_test.ucg";\nlet helper = 1;\n', "fixed": None})
    ndocs = rng.between(1, 3)
    docs = []
    for i in range(ndocs):
        d = "sub/" if (nested and rng.chance(40)) else ""
        kind = "file"
        if mode["protocol"] and rng.chance(15):
            kind = "untitled"
        docs.append({"path": d + "doc%d.ucg" % i, "kind": kind, "on_disk": rng.chance(60) and kind == "file"})
    # import paths usable from a document
    def exports_for(doc):
        up = "../" if doc["path"].startswith("sub/") else "./"
        return {up + w["path"]: LIB_EXPORTS[w["fixed"]] for w in ws if w.get("fixed") is not None}

    def imports_for(doc):
        up = "../" if doc["path"].startswith("sub/") else "./"
        cands = [up + w["path"] for w in ws]
        if mode["overlay"]:
            others = [up + d2["path"] for d2 in docs if d2 is not doc and d2["kind"] == "file"]
            if others and rng.chance(60):
                # documents importing documents: prefer the next one, so that chains a -> m -> x come about
                k = docs.index(doc)
                nxt = docs[(k + 1) % len(docs)]
                return [up + nxt["path"]] if (nxt is not doc and nxt["kind"] == "file") else others
            cands += others
        return cands

    for d in docs:
        if d["on_disk"]:
            d["disk_text"] = gen_ucg.gen_text(rng, imports_for(d), True, exports_for(d))[1]
    # ---- session -----------------------------------------------------------------------------
    nmsg = rng.between(1, 30)
    session = []
    state = {}   # doc index -> current buffer text (only while open)
    last_text = {}  # doc index -> last text the client sent (for position sampling on closed docs)
    # libraries the simulated editor opens as tabs: the indexed ones.  (`*_test.ucg` files are not part of the server's index by design; a
    # document importing one sees it only while it is open - see DESIGN, seen in passing - so they stay import targets on disk here.)
    tabbable = [j for j, w_ in enumerate(ws) if not w_["path"].endswith("_test.ucg")]
    lib_open = set()
    hot = {}        # doc index -> character offsets of the most recent mutation in its current text
    fav_req = rng.sample(REQS, rng.between(1, 4))
    if mode["strict"] and tabbable and rng.chance(25):
        # an editor restoring its tabs: workspace libraries are opened with exactly their on-disk text, in some order, and some are closed
        # again.  Nothing was edited, so nothing may differ from a fresh server afterwards.
        order = rng.shuffle(list(tabbable))[:rng.between(1, max(1, len(tabbable)))]
        for j in order:
            session.append({"m": "open_lib", "lib": j, "text": ws[j]["text"], "unsaved": False})
        for j in order:
            if rng.chance(50):
                session.append({"m": "close_lib", "lib": j})
    def emit_episode():
        # an "overlay episode" that is over before the documents get their final texts: a library is opened with unsaved text, poked at -
        # documents may be opened and analysed against it meanwhile - and closed again without touching the disk.  didClose re-reads the
        # file; every document touched during the episode is sent again afterwards (often with byte-identical text), so at the end the
        # server must be indistinguishable from a fresh one.
        j = rng.choice(tabbable)
        unsaved = gen_ucg.semantic_edit(rng, ws[j]["text"]) if rng.chance(55) else gen_ucg.mutate(rng, ws[j]["text"])
        session.append({"m": "open_lib", "lib": j, "text": unsaved, "unsaved": True, "episode": True})
        cur = session[-1]["text"]
        during = []
        for _ in range(rng.between(0, 4)):
            if rng.chance(40):
                i = rng.below(ndocs)
                up = "../" if docs[i]["path"].startswith("sub/") else "./"
                # preferably a document that imports the very library being edited
                paths = [up + ws[j]["path"]] if rng.chance(70) else imports_for(docs[i])
                cls, text = (("simple", gen_ucg.gen_simple(rng, paths, exports_for(docs[i]))) if rng.chance(60)
                             else gen_ucg.gen_text(rng, paths, True, exports_for(docs[i])))
                if i in state:
                    session.append({"m": "change", "doc": i, "texts": [text], "cls": cls})
                else:
                    session.append({"m": "open", "doc": i, "text": text, "cls": cls, "dup": False})
                state[i] = text
                last_text[i] = text
                if i not in during:
                    during.append(i)
            elif rng.chance(40):
                cur = gen_ucg.mutate(rng, cur) if rng.chance(60) else gen_ucg.gen_text(rng, ())[1]
                session.append({"m": "change_lib", "lib": j, "text": cur})
            else:
                kind = rng.choice(["hover", "definition", "completion", "semtok"])
                if kind == "semtok":
                    session.append({"m": "semtok", "lib": j})
                else:
                    pc, line, ch = gen_ucg.sample_position(rng, cur)
                    session.append({"m": kind, "lib": j, "line": line, "ch": ch, "pc": pc})
        session.append({"m": "close_lib", "lib": j})
        for i in during:
            # the same bytes again (an editor re-sending the buffer) or a new text
            if rng.chance(65):
                session.append({"m": "change", "doc": i, "texts": [state[i]], "cls": "identical_resend"})
            else:
                cls, text = gen_ucg.gen_text(rng, imports_for(docs[i]), True, exports_for(docs[i]))
                session.append({"m": "change", "doc": i, "texts": [text], "cls": cls})
                state[i] = text
                last_text[i] = text

    episode_at = rng.weighted([("none", 55), ("start", 20), ("end", 25)]) if (mode["strict"] and tabbable) else "none"
    if episode_at == "start":
        emit_episode()
    for step in range(nmsg):
        opened = sorted(state)
        choices = [("open", 5 if len(opened) < ndocs else 1), ("change", 8 if opened else 0), ("close", 2 if opened else 0),
                   ("request", 8), ("disk", 3 if mode["disk"] else 0), ("odd", 3 if mode["protocol"] else 0),
                   ("open_lib", 1 if ws else 0)]
        k = rng.weighted(choices)
        if k == "open":
            closed = [i for i in range(ndocs) if i not in state]
            i = rng.choice(closed) if closed else rng.below(ndocs)
            if i in state and not mode["protocol"]:
                k = "change"
            else:
                if docs[i].get("disk_text") is not None and mode["overlay"] and rng.chance(35):
                    # unsaved: the bottom half of the file deleted in the editor
                    lines_ = docs[i]["disk_text"].split("\n")
                    cls, text = "disk_text_top_half", "\n".join(lines_[:max(1, len(lines_) // 2)])
                elif docs[i].get("disk_text") is not None and rng.chance(50):
                    cls, text = "disk_text", docs[i]["disk_text"]
                else:
                    cls, text = gen_ucg.gen_text(rng, imports_for(docs[i]), True, exports_for(docs[i]))
                session.append({"m": "open", "doc": i, "text": text, "cls": cls, "dup": i in state})
                state[i] = text
                last_text[i] = text
                hot[i] = list(gen_ucg.LAST_MUTATION_SPOTS) if cls.startswith("mutated") else []
                if (mode["overlay"] or mode["disk"]) and rng.chance(25):
                    session.append({"m": "wssym", "query": ""})     # look at the whole index right after it changed
                continue
        if k == "change":
            i = rng.choice(opened)
            if rng.chance(35):
                cls, text = "mutated_current", gen_ucg.mutate(rng, state[i])
            else:
                cls, text = gen_ucg.gen_text(rng, imports_for(docs[i]), True, exports_for(docs[i]))
            hot[i] = list(gen_ucg.LAST_MUTATION_SPOTS) if cls.startswith("mutated") else []
            texts = [text]
            if mode["protocol"] and rng.chance(12):
                texts = []
            elif mode["protocol"] and rng.chance(15):
                texts = [gen_ucg.gen_text(rng, imports_for(docs[i]), True, exports_for(docs[i]))[1], text]
            msgc = {"m": "change", "doc": i, "texts": texts, "cls": cls}
            if mode["protocol"] and texts and rng.chance(15):
                msgc["ranged"] = True     # contentChanges carry a range as an incremental-sync client would send it
            session.append(msgc)
            if texts:
                state[i] = texts[-1]
                last_text[i] = texts[-1]
            if (mode["overlay"] or mode["disk"]) and rng.chance(25):
                session.append({"m": "wssym", "query": ""})
            continue
        if k == "close":
            i = rng.choice(opened)
            session.append({"m": "close", "doc": i})
            del state[i]
            continue
        if k == "open_lib":
            # a workspace library opened with exactly its on-disk text (allowed in strict mode), or - overlay mode - with unsaved text
            if not tabbable:
                continue
            j = rng.choice(tabbable)
            if mode["overlay"] and rng.chance(50):
                text = gen_ucg.mutate(rng, ws[j]["text"])
                session.append({"m": "open_lib", "lib": j, "text": text, "unsaved": True})
            elif not any(m.get("m") == "disk" for m in session):
                session.append({"m": "open_lib", "lib": j, "text": ws[j]["text"], "unsaved": False})
            lib_open.add(j)
            continue
        if k == "request":
            kind = rng.choice(fav_req) if rng.chance(70) else rng.choice(REQS)
            if kind == "wssym":
                session.append({"m": "wssym", "query": rng.choice(["", "a", "port", "x", "conf", "zzz", "é", "P"])})
                continue
            targets = list(opened)
            if mode["protocol"] and rng.chance(20):
                targets = [i for i in range(ndocs)]
            if not targets:
                if mode["protocol"]:
                    targets = list(range(ndocs))
                else:
                    session.append({"m": "wssym", "query": ""})
                    continue
            i = rng.choice(targets)
            if kind == "semtok":
                session.append({"m": "semtok", "doc": i})
            else:
                text = state.get(i, last_text.get(i, docs[i].get("disk_text") or ""))
                pc, line, ch = gen_ucg.sample_position(rng, text, hot.get(i) if i in state else None)
                session.append({"m": kind, "doc": i, "line": line, "ch": ch, "pc": pc})
            continue
        if k == "disk":
            targets = [w["path"] for w in ws] + [d["path"] for d in docs if d["kind"] == "file"] + ["new%d.ucg" % step]
            p = rng.choice(targets)
            op = rng.weighted([("write", 5), ("remove", 2), ("mkdir_over", 1), ("nonutf8", 1), ("create", 2)])
            if op == "create":
                p = rng.choice(["new%d.ucg" % step, "libs/new%d.ucg" % step])
            text = gen_ucg.gen_text(rng, ())[1] if op in ("write", "create") else None
            session.append({"m": "disk", "op": op, "path": p, "text": text})
            continue
        if k == "odd":
            kind = rng.choice(["cancel", "unknown_notification", "unknown_request", "close_unopened", "change_unopened", "did_save", "will_save"])
            i = rng.below(ndocs)
            if kind == "change_unopened":
                if i in state:
                    continue
                cls, text = gen_ucg.gen_text(rng, imports_for(docs[i]), True, exports_for(docs[i]))
                session.append({"m": "change", "doc": i, "texts": [text], "cls": cls, "unopened": True})
                state[i] = text
                last_text[i] = text
            elif kind == "close_unopened":
                if i in state:
                    continue
                session.append({"m": "close", "doc": i, "unopened": True})
            else:
                session.append({"m": "odd", "kind": kind, "doc": i})
            continue
    if episode_at == "end":
        emit_episode()
    # strict mode: probe requests put to the session's server and to a fresh server at the very end; the answers must agree
    final_probes = []
    if mode["strict"]:
        for i in sorted(state):
            for _ in range(rng.between(1, 4)):
                kind = rng.choice(["hover", "definition", "completion", "hover", "definition"])
                pc, line, ch = gen_ucg.sample_position(rng, state[i], hot.get(i))
                final_probes.append({"doc": i, "m": kind, "line": line, "ch": ch, "pc": pc})
            final_probes.append({"doc": i, "m": "semtok"})
    return {"workspace": ws, "docs": docs, "mode": mode, "session": session, "nested": nested, "root_uri": not (mode["protocol"] and rng.chance(10)),
            "final_probes": final_probes,
            # the editor reaches the project through a symbolic link: root URI and every document URI carry the link's path
            "root_via_symlink": rng.chance(15),
            # a project directory whose name has to be percent-encoded in URIs
            "root_name": rng.weighted([("ws", 8), ("my ws", 1), ("wörk späce", 1), ("w%20s#1", 1)])}


def render(world):
    return {"workspace": {w["path"]: w["text"] for w in world["workspace"]},
            "documents": [d["path"] for d in world["docs"]], "mode": world["mode"],
            "session": [dict((k, (v if not isinstance(v, str) or len(v) < 200 else v[:200] + "…")) for k, v in m.items()) for m in world["session"]]}


# ---------------------------------------------------------------------------------------------------
def doc_uri(sb, root, d):
    if d["kind"] == "untitled":
        return "untitled:" + d["path"].replace("/", "-")
    return lsp_client.path_to_uri(sb.p(root + "/" + d["path"]))


def norm_uri(sb, uri):
    return uri.replace(sb.root, "<ROOT>") if isinstance(uri, str) else uri


def canon_reply(sb, kind, msg):
    """Order-insensitive replies (HashMap iteration inside the server) are compared as sorted multisets; absolute paths are masked."""
    s = json.dumps(msg, sort_keys=True, ensure_ascii=True).replace(sb.root, "<ROOT>")
    m = json.loads(s)
    if kind == "completion" and isinstance(m.get("result"), dict) and isinstance(m["result"].get("items"), list):
        m["result"]["items"] = sorted(m["result"]["items"], key=lambda x: json.dumps(x, sort_keys=True))
    if kind == "wssym" and isinstance(m.get("result"), list):
        m["result"] = sorted(m["result"], key=lambda x: json.dumps(x, sort_keys=True))
    return m


_POS = re.compile(r"line: (\d+) column: (\d+)")


def fmt_oracle(sb, res, cache, text):
    """`ucg fmt` = the compiler's parser alone.  -> (rejects: bool, (line0, col0) or None)"""
    if text in cache:
        return cache[text]
    sb.write("oracle/fmt.ucg", text)
    inv = sb.invoke(["fmt", "fmt.ucg"], cwd="oracle")
    if inv.timed_out or inv.signal is not None or inv.status not in (0, 1):
        res.metric("fmt_oracle_abnormal")
        out = None
    elif inv.status == 0:
        out = (False, None)
    else:
        head = inv.out.split("\nCaused By:")[0]
        ms = _POS.findall(head)
        out = (True, (int(ms[-1][0]) - 1, int(ms[-1][1]) - 1) if ms else None)
    cache[text] = out
    return out


def real_key(uri):
    """one name per file: a server that was not given a rootUri under a symlinked cwd answers with physical paths"""
    p = lsp_client.uri_to_path(uri) if isinstance(uri, str) else None
    return os.path.realpath(p) if p else uri


def check_ranges(res, sb, kind, reply_obj, default_uri, text_of, tainted, ctx_fn, foreign_fn=None):
    """(b): every reported range lies inside the document it names (LSP rule: start <= end, lines exist; character is clamped by the protocol).
    foreign_fn(uri, diagnostic) -> uri of an imported file that owns the identical diagnostic, or None (recorded known finding, own cause)."""
    def visit(obj, uri):
        if isinstance(obj, dict):
            u = obj.get("uri", uri) if isinstance(obj.get("uri"), str) else uri
            for k, v in obj.items():
                if k in ("range", "selectionRange", "targetRange", "targetSelectionRange") and isinstance(v, dict) and "start" in v:
                    tu = obj.get("targetUri", u) if k.startswith("target") else u
                    one(v, tu, obj)
                elif isinstance(v, (dict, list)):
                    visit(v, u)
        elif isinstance(obj, list):
            for v in obj:
                visit(v, uri)

    def one(r, uri, holder):
        res.metric("ranges_checked")
        try:
            sl, sc, el, ec = r["start"]["line"], r["start"]["character"], r["end"]["line"], r["end"]["character"]
        except Exception:
            res.violate("C20.range-shape", kind, "malformed range %r\n%s" % (r, ctx_fn()))
            return
        if real_key(uri) in tainted:
            res.metric("ranges_skipped_file_edited_behind_server")
            return
        text = text_of(uri)
        if text is None:
            res.metric("ranges_in_unknown_document")
            return
        lines = lsp_client.split_lines(text)
        if (sl, sc) > (el, ec):
            res.violate("C20.range-order", kind, "range start after end: %r in %s\n%s" % (r, norm_uri(sb, uri), ctx_fn()))
        elif sl >= len(lines) or el >= len(lines):
            owner = foreign_fn(uri, holder) if (foreign_fn is not None and kind == "diagnostics" and isinstance(holder.get("message"), str)) else None
            if owner is not None:
                res.metric("diagnostic_with_imported_files_position")
                res.violate("C20.range-line", "imported-file-coordinates", "diagnostic %r published for %s, which has %d line(s): message and range are exactly a diagnostic of the "
                            "imported file %s - an error inside an import is reported against the importer with the imported file's line and column\n%s" % (
                                holder, norm_uri(sb, uri), len(lines), norm_uri(sb, owner), ctx_fn()))
            else:
                res.violate("C20.range-line", kind, "range %r names a line outside %s, which has %d line(s)\n%s" % (r, norm_uri(sb, uri), len(lines), ctx_fn()))
        else:
            # stricter count, metric only (LSP clamps characters beyond the line end)
            if sc > lsp_client.utf16_len(lines[sl]) or ec > lsp_client.utf16_len(lines[el]) + (1 if (sl, sc + 1) == (el, ec) else 0):
                res.metric("ranges_character_beyond_line_end")
                if kind == "diagnostics" and all(ord(c) < 128 for c in text) and "\r" not in text:
                    # pure ASCII / LF text: the server's columns are the protocol's; its one-character error mark may sit right after the
                    # last character, nothing may reach further
                    # measured, not asserted: the real server reports an error that sits inside an imported file with that file's
                    # coordinates against the importing document (e.g. column 18 on a 10-character line); see DESIGN, seen in passing
                    res.metric("diagnostic_range_beyond_line_end_in_plain_text")

    visit(reply_obj, default_uri)


def decode_semtok(data):
    toks = []
    line = 0
    ch = 0
    for i in range(0, len(data) - 4, 5):
        dl, dc, ln, tt, tm = data[i:i + 5]
        if dl:
            line += dl
            ch = dc
        else:
            ch += dc
        toks.append((line, ch, ln, tt, tm))
    return toks


def execute(world, sb, res):
    mode = world["mode"]
    docs = world["docs"]
    root = world.get("root_name", "ws")
    sb.mkdir(root)
    if root != "ws":
        res.probe("root_path_needs_percent_encoding")
    if world.get("root_via_symlink"):
        sb.symlink("wslink", root)
        root = "wslink"
        res.probe("workspace_root_via_symlink")
    sb.mkdir("oracle")
    for w in world["workspace"]:
        sb.write(root + "/" + w["path"], w["text"])
    if world["nested"]:
        sb.mkdir(root + "/sub")
        sb.mkdir(root + "/libs")
    for d in docs:
        if d.get("disk_text") is not None:
            sb.write(root + "/" + d["path"], d["disk_text"])
    uris = [doc_uri(sb, root, d) for d in docs]
    lib_uris = [lsp_client.path_to_uri(sb.p(root + "/" + w["path"])) for w in world["workspace"]]
    if any(d["kind"] != "file" for d in docs):
        res.probe("non_file_uri")
    srv = lsp_client.Server(sb, root)
    fmt_cache = {}
    buffers = {}          # uri -> text while open (what the server was last told)
    tainted = set()       # uris of files edited behind the server's back
    last_diag = {}        # uri -> last published diagnostics list
    ever_closed = set()
    analysed = []         # (uri, text, diagnostics published in answer)
    keyseq = []
    text_bearing = {}
    had_fault = False
    unsaved_libs = set()
    versions = {}          # uri -> version the client last used; restarts at 1 with every didOpen
    history = res.history

    def text_of(uri, snapshot=None):
        """current text of a document: the buffer the server was told about (as of `snapshot`, the buffers when the request was sent), else the file"""
        bufs = buffers if snapshot is None else snapshot
        if uri in bufs:
            return bufs[uri]
        # A URI the client has not opened names the file on disk, also when an open document reaches the same file through a
        # symbolic link: the protocol identifies documents by URI, not by real path (only `tainted` is keyed by real path,
        # because an edit behind the server does change the file under all of its names).
        if uri.startswith("file://"):
            p = lsp_client.uri_to_path(uri)
            try:
                with open(p, "rb") as f:
                    return f.read().decode("utf-8")
            except Exception:
                return None
        return None

    def imported_owner(uri, diag, snapshot):
        """Is `diag` (message and range) exactly a diagnostic of a file that the text of `uri` imports, directly or through other imports?
        Decided by what the session's server last published for that file or, failing that, by a fresh server opened on it alone."""
        seen, todo = [], [uri]
        while todo:
            u = todo.pop()
            t = text_of(u, snapshot)
            pth = lsp_client.uri_to_path(u)
            if t is None or pth is None:
                continue
            for mm in re.finditer(r'import\s*"([^"\\]+)"', t):
                if mm.group(1).startswith("std/"):
                    continue
                tu = lsp_client.path_to_uri(os.path.normpath(os.path.join(os.path.dirname(pth), mm.group(1))))
                if tu != uri and tu not in seen:
                    seen.append(tu)
                    todo.append(tu)
        same = lambda d: isinstance(d, dict) and d.get("message") == diag.get("message") and d.get("range") == diag.get("range")
        for tu in seen:
            if any(same(d) for d in last_diag.get(tu) or []):
                return tu
        for tu in seen:
            t = text_of(tu, snapshot)
            if t is None:
                continue
            fresh = lsp_client.Server(sb, root)
            try:
                fresh.initialize(world.get("root_uri", True))
                fresh.notify("textDocument/didOpen", {"textDocument": {"uri": tu, "languageId": "ucg", "version": 1, "text": t}})
                fm = fresh.recv()
                if any(same(d) for d in fm.get("params", {}).get("diagnostics") or []):
                    return tu
            except (lsp_client.ServerDied, lsp_client.NoReply):
                pass
            finally:
                fresh.kill()
        return None

    def ctx():
        tail = srv.log[-6:]
        return "mode=%s\nlast wire messages:\n%s\nserver stderr: %s" % (
            json.dumps(mode), "\n".join("%s %s" % (d, json.dumps(m, ensure_ascii=True)[:700].replace(sb.root, "<ROOT>")) for d, m in tail), srv.stderr_text()[-600:])

    def died(last_kind, e):
        st = srv.proc.poll()
        res.violate("C20.died" if isinstance(e, lsp_client.ServerDied) or st is not None else "C20.no-reply", last_kind,
                    "%s after a %s message (process status %s)\n%s" % (e, last_kind, st, ctx()))

    try:
        try:
            init = srv.initialize(world.get("root_uri", True))
        except (lsp_client.ServerDied, lsp_client.NoReply) as e:
            res.harness_error = "server did not initialise: %s\n%s" % (e, srv.stderr_text())
            return
        history.append(["init", "ok" if "result" in init else "error"])
        pending = []   # expectations not yet read: dicts(kind, uri/id, ...)
        burst = mode["burst"]
        if burst >= 8:
            res.probe("burst_ge_8")

        def drain():
            """read one answer per pending expectation, in order; run the per-reply oracles"""
            nonlocal pending
            for exp in pending:
                try:
                    m = srv.recv()
                except (lsp_client.ServerDied, lsp_client.NoReply) as e:
                    died(exp["kind"], e)
                    return False
                if "__undecodable__" in m:
                    res.violate("C20.bad-frame", exp["kind"], "server sent an undecodable frame %r\n%s" % (m, ctx()))
                    return False
                if exp["type"] == "diag":
                    if m.get("method") != "textDocument/publishDiagnostics" or m.get("params", {}).get("uri") != exp["uri"]:
                        res.violate("C20.no-reply", exp["kind"], "expected publishDiagnostics for %s after %s, got %s\n%s" % (
                            norm_uri(sb, exp["uri"]), exp["kind"], json.dumps(m)[:300].replace(sb.root, "<ROOT>"), ctx()))
                        return False
                    diags = m["params"].get("diagnostics", [])
                    last_diag[exp["uri"]] = diags
                    history.append(["diag", norm_uri(sb, exp["uri"]), json.loads(json.dumps(diags).replace(sb.root, "<ROOT>"))])
                    if exp["kind"] != "close":
                        analysed.append((exp["uri"], exp["text"], diags))
                    elif diags:
                        res.violate("C20.close-diagnostics", "close", "didClose must clear the diagnostics, got %r\n%s" % (diags, ctx()))
                    check_ranges(res, sb, "diagnostics", diags, exp["uri"], lambda u, e=exp: (e["text"] if u == e["uri"] and e.get("text") is not None else text_of(u, e.get("texts"))),
                                 tainted, ctx, foreign_fn=lambda u, d, e=exp: imported_owner(u, d, dict(e.get("texts") or {}, **({e["uri"]: e["text"]} if e.get("text") is not None else {}))))
                else:
                    if m.get("id") != exp["id"]:
                        res.violate("C20.no-reply", exp["kind"], "expected the response to request %s (%s), got %s\n%s" % (
                            exp["id"], exp["kind"], json.dumps(m)[:300].replace(sb.root, "<ROOT>"), ctx()))
                        return False
                    if "error" in m:
                        res.violate("C20.error-reply", exp["kind"], "request %s answered with an error: %r\n%s" % (exp["kind"], m["error"], ctx()))
                    result = m.get("result")
                    history.append(["reply", exp["kind"], canon_reply(sb, exp["kind"], m).get("result")])
                    if exp["kind"] == "semtok":
                        data = (result or {}).get("data", [])
                        if len(data) % 5:
                            res.violate("C20.semtok-shape", "semtok", "semantic token data length %d is not a multiple of 5\n%s" % (len(data), ctx()))
                        text = exp.get("text")
                        if data:
                            res.probe("semtok_nonempty")
                        if text is not None:
                            lines = lsp_client.split_lines(text)
                            plain_text = all(ord(c) < 128 for c in text) and "\r" not in text
                            semtok_off = []
                            for (ln, ch, length, tt, tm) in decode_semtok(data):
                                res.metric("ranges_checked")
                                if ln >= len(lines):
                                    res.violate("C20.range-line", "semtok", "semantic token at line %d but the document has %d line(s)\n%s" % (ln, len(lines), ctx()))
                                    break
                                if tt > 7:
                                    res.violate("C20.semtok-shape", "semtok", "token type %d outside the legend\n%s" % (tt, ctx()))
                                    break
                                if plain_text and tt not in (2, 4):
                                    # pure ASCII text with LF line ends: the server's lines and byte columns are the protocol's lines and
                                    # UTF-16 columns, so a token that is not a string or comment must cover a non-blank stretch of its line
                                    piece = lines[ln][ch:ch + length]
                                    res.metric("semtok_plain_text_tokens_checked")
                                    if len(piece) != length or not piece.strip() or piece != piece.strip() or length == 0:
                                        semtok_off.append((ln, ch, length, tt, piece))
                                        if len(semtok_off) == 1:
                                            res.violate("C20.semtok-text", "plain-text", "in a pure ASCII / LF document the semantic token (line %d, char %d, length %d, "
                                                        "type %d) covers %r, which is not a token of the text\ntext: %r\n%s" % (ln, ch, length, tt, piece, text[:600], ctx()))
                                if ch + length > lsp_client.utf16_len(lines[ln]):
                                    res.metric("semtok_character_beyond_line_end")
                                    if tt not in (2, 4) and all(ord(c) < 128 for c in lines[ln]):
                                        # not a string or comment (those may span lines), on a line where bytes, chars and UTF-16 units agree
                                        res.metric("semtok_ascii_token_beyond_line_end")
                    else:
                        if result:
                            if exp["kind"] == "hover":
                                res.probe("hover_answered")
                            if exp["kind"] == "definition":
                                res.probe("definition_answered")
                            if exp["kind"] == "wssym":
                                res.probe("wssym_nonempty")
                            if exp["kind"] == "completion" and (result.get("items") if isinstance(result, dict) else result):
                                res.probe("completion_nonempty")
                        snapshot = dict(exp.get("texts", {}))
                        check_ranges(res, sb, exp["kind"], result, exp.get("uri"), lambda u, s=snapshot: text_of(u, s), tainted, ctx)
            pending = []
            return True

        nsent = 0
        for mi, msg in enumerate(world["session"]):
            m = msg["m"]
            if m == "disk":
                # the outside world acts between two client messages: everything sent so far must have been answered first
                if not drain():
                    return
                had_fault = True
                full = root + "/" + msg["path"]
                uri = lsp_client.path_to_uri(sb.p(full))
                tainted.add(real_key(uri))
                try:
                    if msg["op"] in ("write", "create"):
                        if os.path.isdir(sb.p(full)):
                            sb.remove(full)
                        sb.write(full, msg["text"])
                    elif msg["op"] == "remove":
                        if sb.exists(full):
                            sb.remove(full)
                    elif msg["op"] == "mkdir_over":
                        if sb.exists(full):
                            sb.remove(full)
                        sb.mkdir(full)
                    elif msg["op"] == "nonutf8":
                        if os.path.isdir(sb.p(full)):
                            sb.remove(full)
                        sb.write(full, b"let x = \"\xff\xfe\";\n")
                    res.fault("disk_" + msg["op"])
                except Exception:
                    pass
                history.append(["disk", msg["op"], msg["path"]])
                keyseq.append(["disk", msg["op"]])
                continue
            if m in ("open", "open_lib"):
                uri = uris[msg["doc"]] if m == "open" else lib_uris[msg["lib"]]
                text = msg["text"]
                if uri in buffers:
                    res.probe("duplicate_open")
                    res.fault("proto_duplicate_open")
                    had_fault = True
                if uri in ever_closed:
                    res.probe("close_then_reopen")
                if versions.get(uri, 0) > 1:
                    res.probe("version_restarts_after_reopen")
                versions[uri] = 1
                srv.notify("textDocument/didOpen", {"textDocument": {"uri": uri, "languageId": "ucg", "version": 1, "text": text}})
                buffers[uri] = text
                pending.append({"type": "diag", "kind": m, "uri": uri, "text": text, "texts": dict(buffers)})
                text_bearing[uri] = text_bearing.get(uri, 0) + 1
                if m == "open_lib" and msg.get("unsaved"):
                    had_fault = True
                    unsaved_libs.add(uri)
                if m == "open_lib" and not msg.get("unsaved"):
                    res.probe("library_tabs_restored")
                keyseq.append([m, msg.get("cls", "lib")])
            elif m == "change_lib":
                uri = lib_uris[msg["lib"]]
                versions[uri] = versions.get(uri, 0) + 1
                srv.notify("textDocument/didChange", {"textDocument": {"uri": uri, "version": versions[uri]}, "contentChanges": [{"text": msg["text"]}]})
                buffers[uri] = msg["text"]
                pending.append({"type": "diag", "kind": "change", "uri": uri, "text": msg["text"], "texts": dict(buffers)})
                keyseq.append(["change_lib"])
            elif m == "close_lib":
                uri = lib_uris[msg["lib"]]
                srv.notify("textDocument/didClose", {"textDocument": {"uri": uri}})
                buffers.pop(uri, None)
                ever_closed.add(uri)
                pending.append({"type": "diag", "kind": "close", "uri": uri, "text": None, "texts": dict(buffers)})
                res.probe("overlay_episode_closed")
                keyseq.append(["close_lib"])
            elif m == "change":
                uri = uris[msg["doc"]]
                if uri not in buffers:
                    res.probe("change_never_opened")
                    res.fault("proto_change_unopened")
                    had_fault = True
                if len(msg["texts"]) == 0:
                    res.fault("proto_empty_change")
                    had_fault = True
                if len(msg["texts"]) > 1:
                    res.fault("proto_multi_change")
                    had_fault = True
                if msg.get("ranged"):
                    changes = [{"range": {"start": {"line": 0, "character": 0}, "end": {"line": 3, "character": 1}}, "rangeLength": 7, "text": t} for t in msg["texts"]]
                    res.fault("proto_ranged_change")
                    had_fault = True
                else:
                    changes = [{"text": t} for t in msg["texts"]]
                if msg.get("cls") == "identical_resend":
                    res.probe("identical_text_resent")
                versions[uri] = versions.get(uri, 0) + 1
                srv.notify("textDocument/didChange", {"textDocument": {"uri": uri, "version": versions[uri]}, "contentChanges": changes})
                if msg["texts"]:
                    buffers[uri] = msg["texts"][-1]
                    pending.append({"type": "diag", "kind": "change", "uri": uri, "text": msg["texts"][-1], "texts": dict(buffers)})
                    text_bearing[uri] = text_bearing.get(uri, 0) + 1
                keyseq.append(["change", msg.get("cls"), len(msg["texts"])])
            elif m == "close":
                uri = uris[msg["doc"]]
                if uri not in buffers:
                    res.fault("proto_close_unopened")
                    had_fault = True
                if real_key(uri) in tainted:
                    res.probe("disk_fault_then_close")
                srv.notify("textDocument/didClose", {"textDocument": {"uri": uri}})
                buffers.pop(uri, None)
                ever_closed.add(uri)
                pending.append({"type": "diag", "kind": "close", "uri": uri, "text": None, "texts": dict(buffers)})
                keyseq.append(["close"])
            elif m in ("hover", "definition", "completion"):
                uri = uris[msg["doc"]] if "doc" in msg else lib_uris[msg["lib"]]
                if uri not in buffers:
                    res.probe("request_closed_document")
                    res.fault("proto_request_closed_doc")
                text = buffers.get(uri)
                if msg["pc"] in ("one_past_last_line", "far_outside", "u32_max"):
                    res.probe("position_beyond_last_line")
                rid = srv.request(lsp_client.REQUEST_METHODS[m], {"textDocument": {"uri": uri}, "position": {"line": msg["line"], "character": msg["ch"]}})
                pending.append({"type": "resp", "kind": m, "id": rid, "uri": uri, "texts": dict(buffers)})
                keyseq.append([m, msg["pc"]])
            elif m == "semtok":
                uri = uris[msg["doc"]] if "doc" in msg else lib_uris[msg["lib"]]
                if uri not in buffers:
                    res.probe("request_closed_document")
                    res.fault("proto_request_closed_doc")
                rid = srv.request(lsp_client.REQUEST_METHODS[m], {"textDocument": {"uri": uri}})
                pending.append({"type": "resp", "kind": m, "id": rid, "uri": uri, "text": buffers.get(uri)})
                keyseq.append([m])
            elif m == "wssym":
                rid = srv.request(lsp_client.REQUEST_METHODS[m], {"query": msg["query"]})
                pending.append({"type": "resp", "kind": m, "id": rid, "uri": None, "texts": dict(buffers)})
                keyseq.append([m])
            elif m == "odd":
                had_fault = True
                kind = msg["kind"]
                uri = uris[msg["doc"]]
                if kind == "cancel":
                    srv.notify("$/cancelRequest", {"id": max(1, srv.next_id - 1)})
                    res.fault("proto_cancel")
                elif kind == "unknown_notification":
                    srv.notify("workspace/didChangeConfiguration", {"settings": {"ucg": {"x": 1}}})
                    res.fault("proto_unknown_notification")
                elif kind == "did_save":
                    srv.notify("textDocument/didSave", {"textDocument": {"uri": uri}})
                    res.fault("proto_unknown_notification")
                elif kind == "will_save":
                    srv.notify("textDocument/willSave", {"textDocument": {"uri": uri}, "reason": 1})
                    res.fault("proto_unknown_notification")
                elif kind == "unknown_request":
                    # no reply by design (handle_request falls through); the client does not wait for one
                    srv.request("textDocument/documentSymbol", {"textDocument": {"uri": uri}})
                    res.fault("proto_unknown_request")
                keyseq.append(["odd", kind])
            nsent += 1
            if len(pending) >= burst:
                if burst > 1:
                    res.fault("burst")
                if not drain():
                    return
        if not drain():
            return
        res.steps += len(world["session"])

        # ---- per-text oracles: (d) parser agreement ------------------------------------------------
        prev_rejected = {}
        for uri, text, diags in analysed:
            fo = fmt_oracle(sb, res, fmt_cache, text)
            if any(ord(c) > 127 for c in text):
                res.probe("non_ascii_line")
            if "\r\n" in text:
                res.probe("crlf_text")
            if fo is None:
                continue
            rejects, pos = fo
            if uri in prev_rejected:
                if prev_rejected[uri] and not rejects:
                    res.probe("parse_error_then_valid")
                if not prev_rejected[uri] and rejects:
                    res.probe("valid_then_parse_error")
            prev_rejected[uri] = rejects
            shown = text if len(text) < 600 else text[:600] + "…"
            if rejects:
                res.probe("fmt_oracle_rejects")
                if len(diags) == 0:
                    res.violate("C20.syntax-diag", "missing", "the compiler's parser rejects this text (at %s) but the server published no diagnostic\ntext: %r\n" % (pos, shown))
                elif len(diags) > 1:
                    res.violate("C20.syntax-diag", "several", "the parser rejects this text; exactly one syntax diagnostic was expected, got %d: %r\ntext: %r\n" % (len(diags), diags, shown))
                elif pos is not None:
                    st = diags[0]["range"]["start"]
                    lines = text.split("\n")
                    alt = None
                    if pos[0] < len(lines):
                        # byte column -> UTF-16 column on that line, accepted as well
                        raw = lines[pos[0]].encode("utf-8")[:pos[1]]
                        alt = (pos[0], lsp_client.utf16_len(raw.decode("utf-8", "ignore")))
                    if (st["line"], st["character"]) != pos and (st["line"], st["character"]) != alt:
                        res.violate("C20.syntax-diag", "position", "parser error at (line,col)=%s (0-based) but the diagnostic starts at (%d,%d)\ntext: %r\n" % (
                            pos, st["line"], st["character"], shown))
            else:
                res.probe("fmt_oracle_accepts")

        # ---- strict-history mode: (c) fresh-server equality and (e) builds => no diagnostics ------
        strict_ok = mode["strict"] and not tainted and not (unsaved_libs & set(buffers))
        # No rootUri *and* a working directory entered through a symlink: the server falls back to its physical cwd while the client's
        # URIs carry the link's path, so start-up index and documents name the same files differently (recorded known finding; violations
        # of the history clauses in this configuration carry their own cause so that nothing else is suppressed with them)
        unrooted = (not world.get("root_uri", True)) and bool(world.get("root_via_symlink"))
        if strict_ok:
            for uri in sorted(buffers):
                if uri in lib_uris:
                    continue
                final = buffers[uri]
                got = last_diag.get(uri)
                fresh = lsp_client.Server(sb, root)
                probe_pairs = []
                try:
                    fresh.initialize(world.get("root_uri", True))
                    fresh.notify("textDocument/didOpen", {"textDocument": {"uri": uri, "languageId": "ucg", "version": 1, "text": final}})
                    fm = fresh.recv()
                    want = fm.get("params", {}).get("diagnostics")
                    # the same probe requests to both servers: answers come from the current text only
                    for pr in world.get("final_probes", []):
                        if uris[pr["doc"]] != uri:
                            continue
                        params = {"textDocument": {"uri": uri}}
                        if pr["m"] != "semtok":
                            params["position"] = {"line": pr["line"], "character": pr["ch"]}
                        answers = []
                        for server in (srv, fresh):
                            rid = server.request(lsp_client.REQUEST_METHODS[pr["m"]], params)
                            r = server.recv()
                            if r.get("id") != rid:
                                raise lsp_client.NoReply("unexpected message instead of the reply to %s: %r" % (pr["m"], r))
                            answers.append(canon_reply(sb, pr["m"], r).get("result"))
                        probe_pairs.append((pr, answers[0], answers[1]))
                    fresh.shutdown()
                except (lsp_client.ServerDied, lsp_client.NoReply) as e:
                    res.violate("C20.died", "fresh-open", "a fresh server died on a single didOpen: %s\ntext: %r\n%s" % (e, final[:600], fresh.stderr_text()[-500:]))
                    continue
                finally:
                    fresh.kill()
                res.probe("strict_final_compared")
                for pr, a_sess, a_fresh in probe_pairs:
                    res.probe("final_probes_compared")
                    if a_sess != a_fresh:
                        res.violate("C20.answer-history-dependent", "unrooted-symlink" if unrooted else pr["m"], "%s at (%s,%s) of the final text is answered differently by the session's server and by a fresh server "
                                    "opened on that text\nsession: %s\nfresh:   %s\nfinal text: %r\n%s" % (
                                        pr["m"], pr.get("line"), pr.get("ch"), json.dumps(a_sess)[:600], json.dumps(a_fresh)[:600], final[:800], ctx()))
                        break
                if got != want:
                    res.violate("C20.history-dependent", "unrooted-symlink" if unrooted else "strict", "diagnostics after the session differ from a fresh server opened on the final text\n"
                                "session: %r\nfresh:   %r\nfinal text: %r\n%s" % (got, want, final[:800], ctx()))
                # (e) the compiler builds it => no diagnostics
                fo = fmt_oracle(sb, res, fmt_cache, final)
                if uri.startswith("file://") and fo is not None and not fo[0]:
                    import shutil
                    rel = lsp_client.uri_to_path(uri)[len(sb.root) + 1:]
                    # scratch copy of the workspace with the final text in place
                    if os.path.exists(sb.p("scratch")):
                        shutil.rmtree(sb.p("scratch"))
                    shutil.copytree(sb.p(root), sb.p("scratch"), symlinks=True)
                    srel = "scratch/" + rel[len(root) + 1:]
                    sb.write(srel, final)
                    inv = sb.invoke(["build", os.path.basename(srel)], cwd=os.path.dirname(srel), timeout=10)
                    if inv.timed_out:
                        res.metric("build_oracle_timeouts")
                    elif inv.status == 0:
                        res.probe("build_oracle_succeeds")
                        if got:
                            res.violate("C20.builds-but-diagnosed", "strict", "the compiler builds this text successfully but the server publishes diagnostics %r\ntext: %r\n" % (got, final[:800]))
                    else:
                        res.metric("build_oracle_fails")

        # ---- pinned known-finding histories only: compare with a fresh server outside strict mode ----------
        if world.get("compare_final") and not mode["strict"]:
            cause = "stale-disk" if tainted else "overlay"
            for uri in sorted(buffers):
                if uri in lib_uris:
                    continue
                fresh = lsp_client.Server(sb, root)
                try:
                    fresh.initialize(True)
                    fresh.notify("textDocument/didOpen", {"textDocument": {"uri": uri, "languageId": "ucg", "version": 1, "text": buffers[uri]}})
                    want = fresh.recv().get("params", {}).get("diagnostics")
                    fresh.shutdown()
                except (lsp_client.ServerDied, lsp_client.NoReply) as e:
                    res.harness_error = "fresh server failed in a pinned history: %s" % e
                    return
                finally:
                    fresh.kill()
                if last_diag.get(uri) != want:
                    res.violate("C20.history-dependent", cause, "diagnostics after the session differ from a fresh server on the same disk opened on the final text\n"
                                "session: %r\nfresh:   %r\n" % (last_diag.get(uri), want))

        # ---- (a) orderly end ---------------------------------------------------------------------------
        if not srv.alive():
            res.violate("C20.died", "end-of-session", "the server process is gone before shutdown (status %s)\n%s" % (srv.proc.poll(), ctx()))
            return
        clean, st, note = srv.shutdown()
        if not clean:
            res.violate("C20.shutdown", "status", "shutdown+exit did not end the server with status 0 (status %s) %s\n%s" % (st, note, ctx()))
    finally:
        srv.kill()
        nontrivial = had_fault or any(v >= 2 for v in text_bearing.values())
        res.key([sorted(k for k, v in mode.items() if v and k != "burst") + (["burst"] if mode["burst"] > 1 else []), keyseq], nontrivial)


def shrink_candidates(world):
    w = world
    s = w["session"]
    n = len(s)
    # drop halves, then single messages
    if n > 3:
        yield dict(w, session=s[: n // 2])
        yield dict(w, session=s[n // 2:])
    for i in range(n):
        if n > 1:
            yield dict(w, session=s[:i] + s[i + 1:])
    if w["mode"]["burst"] != 1:
        yield dict(w, mode=dict(w["mode"], burst=1))
    fp = w.get("final_probes", [])
    if len(fp) > 1:
        for i in range(len(fp)):
            yield dict(w, final_probes=[fp[i]])
    elif fp:
        yield dict(w, final_probes=[])
    for i in range(len(w["workspace"]) - 1, -1, -1):
        used = any(m.get("m") == "open_lib" for m in s)
        if not used:
            yield dict(w, workspace=w["workspace"][:i] + w["workspace"][i + 1:])
    for i, d in enumerate(w["docs"]):
        if d.get("disk_text") is not None:
            nd = dict(d)
            nd.pop("disk_text")
            nd["on_disk"] = False
            yield dict(w, docs=w["docs"][:i] + [nd] + w["docs"][i + 1:])
    # shorten texts: halve, then drop lines
    for i, m in enumerate(s):
        if m["m"] in ("open", "open_lib") and len(m["text"]) > 1:
            t = m["text"]
            for cand in _shorter(t):
                yield dict(w, session=s[:i] + [dict(m, text=cand)] + s[i + 1:])
        if m["m"] == "change" and m["texts"]:
            t = m["texts"][-1]
            if len(m["texts"]) > 1:
                yield dict(w, session=s[:i] + [dict(m, texts=[t])] + s[i + 1:])
            for cand in _shorter(t):
                yield dict(w, session=s[:i] + [dict(m, texts=m["texts"][:-1] + [cand])] + s[i + 1:])


def _shorter(t):
    n = len(t)
    if n > 8:
        yield t[: n // 2]
        yield t[n // 2:]
    lines = t.split("\n")
    if 1 < len(lines) <= 40:
        for i in range(len(lines)):
            yield "\n".join(lines[:i] + lines[i + 1:])
    if n <= 40:
        for i in range(n):
            yield t[:i] + t[i + 1:]


REAL_VS_STUB = {
    "real": ["the `ucg lsp` release binary: lsp-server stdio transport and its pump threads, main_loop, handle_notification, handle_request, "
             "ServerState/WorkspaceIndex, analysis pipeline (tokenizer, parser, shape derivation); `ucg fmt` and `ucg build` as oracles"],
    "stubbed": [],
    "simulated": ["the LSP client (lock-step and pipelined bursts), the programs that edit workspace files behind the server, the workspace tree"],
}
ASSUMPTIONS = [
    "the server is sequential, so replies arrive in request order; order-insensitive replies (completion items, workspace symbols: HashMap iteration) are compared as sorted multisets",
    "range validity follows LSP 3.17: start <= end and both lines exist; a character beyond the line end is clamped by the protocol and only counted as a metric",
    "fresh-server equality (c) and builds-implies-no-diagnostics (e) are evaluated in strict-history mode only; overlay and stale-disk behaviour are recorded known findings",
    "unknown requests get no reply by design and the client does not wait for one; malformed params are outside the property's quantifier",
]
