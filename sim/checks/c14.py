"""C14 — `out` writes one artifact: right name, same bytes as `convert`, all or nothing.

World: one project directory that persists over a history of builds of the same
source path; each step rewrites the source, optionally plants a disk fault on the
artifact path, and builds.  Model: artifact map left by the last successful build.
Reference for "same bytes as convert": the subject's own `convert` expression,
obtained through a probe program in a scratch directory (DESIGN.md §3 C14)."""
import json
import os
import re

PROPERTY = "C14"
LEVEL = "fault_enumeration"
RULE = ("histories of 2-6 builds over one source path (8 converters x convertible/unconvertible value classes x "
        "{0,1,2 outs, error before/after out} x {artifact pre-exists or not} x disk faults ENOSPC/EISDIR/EFBIG-at-byte-N); "
        "thorough enumerates every torn-write offset 0..len for every (converter, convertible class). A case is one build step in its situation; "
        "distinct = distinct (step kind, converter(s), value class(es), fault kind, tear position class, outcome, artifact existed before?, "
        "an earlier step of the history failed?); non-trivial = the step had to fail and did fail, or a disk fault actually fired")

EXT = {"json": "json", "yaml": "yaml", "yamlmulti": "yaml", "toml": "toml", "xml": "xml", "env": "env",
       "flags": "txt", "exec": "sh"}  # from docsite reference/converters.md and `ucg converters`, not from the hook
CONVERTERS = sorted(EXT)
PRELUDE = ("constraint pr = in 1..10;\n"
           "let keep_set = func (t) => filter(func (k, v) => v != NULL, t);\n"
           "let upcase_keys = func (t) => map(func (k, v) => [k, v], t);\n")

# value classes: (class name, expression template, expected-convertible hint (only a hint; the probe decides))
GOOD = {
    "json": [("filtered_tuple", 'keep_set({a = 1, name = "@U@", gone = NULL})'), ("tuple", '{a = 1, s = "@U@", l = [1, "x"], n = {e = NULL}}'), ("list", '[1, 2, "@U@"]'),
             ("scalar", '"@U@"'), ("empty", '{}')],
    "yaml": [("tuple", '{a = 1, s = "@U@", l = [1, "x"], n = {e = NULL}}'), ("list", '[1, 2, "@U@"]'),
             ("scalar", '"@U@"'), ("empty", '{}')],
    "yamlmulti": [("docs", '[{a = "@U@"}, {b = 2}]'), ("single", '{a = "@U@"}'), ("one", '[{z = "@U@", l = [1, 2, 3]}]'), ("empty_output", '[]')],
    "toml": [("tuple", '{a = 1, s = "@U@", t = {b = "x"}}'), ("list", '[1, "@U@"]'), ("nested", '{t = {u = {v = "@U@"}}, l = [1, 2]}')],
    "xml": [("filtered_tuple", 'keep_set({root = {name = "r@U@"}, gone = NULL})'), ("doc", '{root = {name = "r", attrs = {a = "@U@"}, children = [{name = "c"}, {text = "hi"}]}}'),
            ("versioned", '{version = "1.1", root = {name = "top@U@", children = [{name = "k", attrs = {x = "1"}}]}}'),
            ("leaf", '{root = {name = "n@U@"}}')],
    "env": [("tuple", '{A = "@U@", B = "x y", N = 1}'), ("quotes", '{Q = "it\'s @U@", T = true}'), ("scalar", '"@U@"'), ("empty_output", '{}')],
    "flags": [("filtered_tuple", 'keep_set({a = 1, name = "@U@", gone = NULL})'), ("mapped_tuple", 'upcase_keys({a = 1, name = "@U@"})'),
              ("tuple", '{a = 1, name = "@U@", l = [1, 2], flag = true}'), ("nested", '{out = {dir = "@U@"}, v = NULL}'),
              ("short", '{n = "@U@"}'), ("empty_output", '{}')],
    "exec": [("filtered_tuple", 'keep_set({command = "run-@U@", args = ["a"], gone = NULL})'), ("full", '{command = "echo", args = ["@U@", {b = "c"}], env = {X = "1"}}'), ("bare", '{command = "run-@U@"}'),
             ("args", '{command = "printf", args = ["%s", "@U@"]}')],
}
BAD = {
    "json": [("constraint", '{c = pr, s = "@U@"}'), ("constraint_in_list", '[{a = "@U@"}, pr]')],
    "yaml": [("constraint", '{c = pr, s = "@U@"}'), ("constraint_top", 'pr')],
    "yamlmulti": [("late_constraint", '[{a = "@U@"}, {b = 2}, pr]'), ("constraint_first", '[pr, {a = "@U@"}]')],
    "toml": [("null", '{a = NULL}'), ("late_null", '{s = "@U@", t = {n = NULL}}'), ("constraint", '{c = pr}')],
    "xml": [("nontuple", '1'), ("noroot", '{a = "@U@"}'), ("name_and_text", '{root = {name = "r", text = "@U@"}}'),
            ("late_bad_child", '{root = {name = "r", attrs = {a = "@U@"}, children = [{name = "c"}, 1]}}'),
            ("late_constraint_attr", '{root = {name = "r", children = [{name = "a@U@"}, {name = "b", attrs = {k = pr}}]}}'),
            ("late_bad_grandchild", '{root = {name = "r", children = [{name = "a@U@"}, {name = "b", children = [{name = "c"}, {name = "d", text = "x"}]}]}}')],
    "env": [("constraint", '{A = "@U@", C = pr}')],
    "flags": [("nontuple", '1'), ("string", '"@U@"'), ("list", '["@U@"]'), ("late_constraint", '{name = "@U@", c = pr}'),
              ("late_constraint_in_list", '{name = "@U@", l = [1, pr]}')],
    "exec": [("nontuple", '1'), ("command_int", '{command = 1}'), ("no_command", '{args = ["@U@"]}'),
             ("args_int", '{command = "echo", args = 1}'), ("env_int", '{command = "echo@U@", env = 1}'),
             ("late_bad_arg", '{command = "echo", env = {X = "@U@"}, args = ["ok", 1.5, [1]]}'),
             ("late_constraint_arg", '{command = "echo", args = ["@U@", pr]}'), ("constraint_env", '{command = "echo@U@", env = {X = pr}}')],
}
# a writable directory on a file system other than the sandbox's (tmpfs): the process is free to stage files there
OTHER_FS_TMP = next((d for d in ("/var/tmp", "/tmp") if os.path.isdir(d) and os.access(d, os.W_OK)), "/tmp")
ENVDEP = {"json": '{tok = env.UCGSIM_TOK, n = 1}', "yaml": '{tok = env.UCGSIM_TOK, n = 1}', "toml": '{tok = env.UCGSIM_TOK}',
          "env": '{TOK = env.UCGSIM_TOK}', "flags": '{tok = env.UCGSIM_TOK}', "exec": '{command = "run", args = [env.UCGSIM_TOK]}',
          "xml": '{root = {name = "r", attrs = {tok = env.UCGSIM_TOK}}}', "yamlmulti": '[{tok = env.UCGSIM_TOK}]'}
SRC_NAMES = [("plain", "p.ucg"), ("dotted", "conf.prod.ucg"), ("subdir", "sub/x.ucg"), ("dash", "my-app_1.ucg"), ("symlink", "site.ucg")]
FAULT_KINDS = ["enospc", "eisdir", "efbig"]
PROBES = ["failed_conversion_over_existing_artifact", "failed_conversion_without_artifact", "streaming_converter_failed_late",
          "torn_first_byte", "torn_middle", "torn_last_byte", "success_after_failure", "two_outs", "error_after_out",
          "foreign_preexisting", "built_from_other_cwd", "built_through_directory_walk", "built_through_dotslash", "source_is_symlink", "companion_built_first", "companion_failed_late", "source_untouched_between_builds", "out_inside_module_body", "companion_built_last", "tmpdir_on_another_file_system",
          "imports_a_file_with_its_own_out", "equal_value_rendered_earlier_in_other_field_order", "import_between_two_outs", "companion_in_a_sub_directory"]

TIERS = {
    "quick": {"runs": 640, "wall_cap": 200},
    "thorough": {"runs": 9000, "wall_cap": 3000, "reexecute": 100, "exhaustive": False},
}


def _enum_worlds(tier):
    """Fixed scenarios placed at the first run indices.  quick: one failed-over-existing history per
    unconvertible class; thorough: additionally every torn offset for every (converter, convertible class)."""
    out = []
    for conv in CONVERTERS:
        for cls, tmpl in BAD[conv]:
            gcls, gt = GOOD[conv][0]
            out.append({"src": "p.ucg", "dir": "proj", "cwd": "proj", "abs": False, "pre": "none", "others": [],
                        "steps": [
                            {"k": "out", "outs": [{"conv": conv, "cls": cls, "expr": tmpl.replace("@U@", "n0")}], "fault": None},
                            {"k": "out", "outs": [{"conv": conv, "cls": gcls, "expr": gt.replace("@U@", "g1")}], "fault": None},
                            {"k": "out", "outs": [{"conv": conv, "cls": cls, "expr": tmpl.replace("@U@", "b2")}], "fault": None},
                            {"k": "out", "outs": [{"conv": conv, "cls": gcls, "expr": gt.replace("@U@", "g3")}], "fault": None}]})
    for conv in CONVERTERS:
        for cls, tmpl in GOOD[conv]:
            out.append({"src": "p.ucg", "dir": "proj", "cwd": "proj", "abs": False, "pre": "none", "others": [],
                        "steps": [{"k": "out", "outs": [{"conv": conv, "cls": cls, "expr": tmpl.replace("@U@", "t0")}],
                                   "fault": {"kind": "efbig", "n": "all" if tier == "thorough" else "edges"}}]})
    return out


_ENUM = {}


def enum_worlds(tier):
    if tier not in _ENUM:
        _ENUM[tier] = _enum_worlds(tier)
    return _ENUM[tier]


REORDER = {"json": ('{a = 1, b = "@U@", c = [1, 2]}', '{c = [1, 2], b = "@U@", a = 1}'),
           "yaml": ('{a = 1, b = "@U@", c = [1, 2]}', '{c = [1, 2], b = "@U@", a = 1}'),
           "toml": ('{a = 1, b = "@U@"}', '{b = "@U@", a = 1}'),
           "env": ('{A = 1, B = "@U@"}', '{B = "@U@", A = 1}'),
           "flags": ('{a = 1, b = "@U@"}', '{b = "@U@", a = 1}'),
           "yamlmulti": ('[{a = 1, b = "@U@"}]', '[{b = "@U@", a = 1}]'),
           "exec": ('{command = "run", env = {A = "1", B = "@U@"}}', '{env = {B = "@U@", A = "1"}, command = "run"}'),
           "xml": ('{root = {name = "r", attrs = {a = "1", b = "@U@"}}}', '{root = {attrs = {b = "@U@", a = "1"}, name = "r"}}')}


def generate(rng, tier, idx):
    fixed = enum_worlds(tier)
    if idx < len(fixed):
        return fixed[idx]
    name_cls, src = rng.weighted([(SRC_NAMES[0], 5), (SRC_NAMES[1], 2), (SRC_NAMES[2], 2), (SRC_NAMES[3], 1), (SRC_NAMES[4], 1)])
    w = {"src": src, "dir": "proj", "abs": rng.chance(25), "cwd": rng.weighted([("proj", 6), ("", 2), ("elsewhere", 2)]),
         "how": rng.weighted([("file", 7), ("dotslash", 1), ("walk_noargs", 1), ("walk_r", 1), ("walk_dir_arg", 1)]),
         "pre": rng.weighted([("none", 6), ("foreign", 2), ("foreign_binary", 1)]), "others": [], "steps": []}
    # where the process is told to keep temporary files: not at all, inside the project's file system, or on another file system
    w["tmpdir"] = rng.weighted([("unset", 5), ("same_fs", 2), ("other_fs", 2)])
    if name_cls == "symlink":
        # the file handed to the compiler is a symbolic link to a differently named file in another directory;
        # the artifact is named like the file that was built, and sits next to it
        w["src_symlink"] = "shared/base.ucg"
        w["how"] = "file"
    if rng.chance(50):
        w["others"].append(["proj/keep.txt", "keep-" + rng.token(6)])
    if rng.chance(30):
        w["others"].append(["proj/" + os.path.splitext(src)[0] + ".bak", "bak-" + rng.token(6)])
    # swarm: a run concentrates on 1-2 converters and a subset of step kinds / fault kinds
    convs = rng.sample(CONVERTERS, rng.between(1, 2))
    faults_on = rng.subset(FAULT_KINDS, 40)
    kinds = [("good", 6), ("bad", 6), ("two", 2), ("zero", 1), ("post_error", 2), ("pre_error", 1)]
    nsteps = rng.between(2, 6)
    for i in range(nsteps):
        conv = rng.choice(convs)
        k = rng.weighted(kinds)
        u = "u%d%s" % (i, rng.token(5))
        st = {"k": "out", "outs": [], "fault": None}
        if k == "bad" and not BAD[conv]:
            k = "good"
        if k == "good":
            cls, t = rng.choice(GOOD[conv])
            st["outs"] = [{"conv": conv, "cls": cls, "expr": t.replace("@U@", u)}]
            if faults_on and rng.chance(45):
                fk = rng.choice(faults_on)
                st["fault"] = {"kind": fk}
                if fk == "efbig":
                    st["fault"]["n"] = rng.weighted([(0, 2), (1, 2), ("mid", 3), ("last", 2), ("len", 1), (rng.between(2, 40), 3)])
        elif k == "bad":
            cls, t = rng.choice(BAD[conv])
            st["outs"] = [{"conv": conv, "cls": cls, "expr": t.replace("@U@", u)}]
        elif k == "two":
            conv2 = rng.choice(CONVERTERS) if rng.chance(60) else conv
            c1, t1 = rng.choice(GOOD[conv])
            c2, t2 = rng.choice(GOOD[conv2])
            st["outs"] = [{"conv": conv, "cls": c1, "expr": t1.replace("@U@", u)},
                          {"conv": conv2, "cls": c2, "expr": t2.replace("@U@", u + "b")}]
            st["two_shape"] = rng.weighted([("top_top", 5), ("module_then_top", 2), ("module_twice", 1), ("top_then_module", 1), ("import_between", 2)])
            if st["two_shape"] == "import_between":
                dconv = rng.choice(["json", "yaml", "toml", "env"])
                dcls, dt = rng.choice(GOOD[dconv])
                st["dep_out"] = {"conv": dconv, "cls": dcls, "expr": dt.replace("@U@", "d" + u), "between": True}
            if st["two_shape"] == "module_twice":
                st["outs"][1] = dict(st["outs"][0])
        elif k == "zero":
            st["k"] = "zero"
            st["u"] = u
        elif k == "post_error":
            cls, t = rng.choice(GOOD[conv])
            st["k"] = "post_error"
            st["outs"] = [{"conv": conv, "cls": cls, "expr": t.replace("@U@", u)}]
            st["u"] = u
        elif k == "pre_error":
            cls, t = rng.choice(GOOD[conv])
            st["k"] = "pre_error"
            st["outs"] = [{"conv": conv, "cls": cls, "expr": t.replace("@U@", u)}]
            st["u"] = u
        if k in ("good", "bad") and not st.get("fault") and rng.chance(12):
            # the source imports a library that has an out statement of its own: the library's artifact is the library's business,
            # the source's artifact must still be the source's
            dconv = rng.choice(["json", "yaml", "toml", "env"])
            dcls, dt = rng.choice(GOOD[dconv])
            st["dep_out"] = {"conv": dconv, "cls": dcls, "expr": dt.replace("@U@", "d" + u)}
        if k == "good" and not st.get("fault") and rng.chance(18) and conv in ENVDEP:
            # the value depends on the environment only: the next build finds the source untouched (not even rewritten) and the artifact
            # newer than the source, but must still produce the new bytes - same length or not
            st["outs"] = [{"conv": conv, "cls": "envdep", "expr": ENVDEP[conv]}]
            st["envtok"] = "t" + rng.token(7)
            w["steps"].append(st)
            st = dict(st, envtok=("t" + rng.token(7)) if rng.chance(70) else ("longer" + rng.token(9)))
        if k == "good" and not st.get("fault") and not st.get("envtok") and rng.chance(12):
            # the same value with its fields in another order was rendered earlier in this process: by a companion file built first,
            # or by a `convert` expression earlier in the same file.  Equal values, different bytes.
            first, second = REORDER[conv]
            st["outs"] = [{"conv": conv, "cls": "reordered", "expr": first.replace("@U@", u)}]
            if rng.chance(50) and w["how"] == "file" and name_cls != "symlink":
                st["companion"] = {"conv": conv, "cls": "reordered_twin", "expr": second.replace("@U@", u), "after": False}
            else:
                st["pre_convert"] = {"conv": conv, "expr": second.replace("@U@", u)}
        if w["how"] == "file" and name_cls != "symlink" and not st.get("fault") and not st.get("companion") and rng.chance(20):
            # another source of the same invocation, built first: its conversion succeeds, fails at once or fails late
            cconv = rng.choice(CONVERTERS)
            pool = GOOD[cconv] + BAD[cconv] + [c for c in BAD[cconv] if c[0].startswith("late")] * 3
            ccls, ct = rng.choice(pool)
            st["companion"] = {"conv": cconv, "cls": ccls, "expr": ct.replace("@U@", "q" + u), "after": rng.chance(40), "subdir": rng.chance(40)}
        w["steps"].append(st)
    return w


def program(step):
    lines = [PRELUDE]
    if step.get("pre_convert"):
        lines.append("let rendered_before = convert %s %s;\n" % (step["pre_convert"]["conv"], step["pre_convert"]["expr"]))
    if step.get("dep_out") and not step["dep_out"].get("between"):
        lines.append('let dep = import "./dep_with_out.ucg";\nlet dep_marker = dep.marker;\n')
    if step["k"] == "zero":
        lines.append('let a = "%s";\n' % step["u"])
    if step["k"] == "pre_error":
        lines.append('let boom = fail "boom-%s";\n' % step["u"])
    shape = step.get("two_shape")
    if shape == "module_then_top" and len(step["outs"]) == 2:
        a, b = step["outs"]
        lines.append("let holder = module {a = 1} => { out %s %s; };\nlet inst = holder{};\n" % (a["conv"], a["expr"]))
        lines.append("out %s %s;\n" % (b["conv"], b["expr"]))
    elif shape == "module_twice" and len(step["outs"]) == 2:
        a = step["outs"][0]
        lines.append("let holder = module {a = 1} => { out %s %s; };\nlet inst1 = holder{};\nlet inst2 = holder{a = 2};\n" % (a["conv"], a["expr"]))
    elif shape == "top_then_module" and len(step["outs"]) == 2:
        a, b = step["outs"]
        lines.append("out %s %s;\n" % (a["conv"], a["expr"]))
        lines.append("let holder = module {a = 1} => { out %s %s; };\nlet inst = holder{};\n" % (b["conv"], b["expr"]))
    elif shape == "import_between" and len(step["outs"]) == 2:
        a, b = step["outs"]
        lines.append("out %s %s;\n" % (a["conv"], a["expr"]))
        lines.append('let dep = import "./dep_with_out.ucg";\nlet dep_marker = dep.marker;\n')
        lines.append("out %s %s;\n" % (b["conv"], b["expr"]))
    else:
        for o in step["outs"]:
            lines.append("out %s %s;\n" % (o["conv"], o["expr"]))
    if step["k"] == "post_error":
        lines.append('let boom = fail "boom-%s";\n' % step["u"])
    return "".join(lines)


def render(world):
    return {"source_path": world["dir"] + "/" + world["src"],
            "programs": [program(s) for s in world["steps"]],
            "faults": [s.get("fault") for s in world["steps"]]}


def artifact_path(world, conv):
    base = world["dir"] + "/" + world["src"]
    stem = base[: base.rfind(".")]
    return stem + "." + EXT[conv]


_INFO = re.compile(r"^(Build results in no artifacts\.|Skipping .*|TRACE: .*|including an empty file.*)$")


class Ref:
    """`convert` reference through the subject itself, in a scratch directory."""

    def __init__(self, sb, res):
        self.sb = sb
        self.res = res
        self.cache = {}

    def get(self, conv, expr, envtok=None):
        key = (conv, expr, envtok)
        if key in self.cache:
            return self.cache[key]
        self.sb.write("ref/probe.ucg", PRELUDE + "let s = convert %s %s;\nout json {s = s};\n" % (conv, expr))
        if self.sb.exists("ref/probe.json"):
            self.sb.remove("ref/probe.json")
        inv = self.sb.invoke(["build", "probe.ucg"], cwd="ref", env={"UCGSIM_TOK": envtok} if envtok else None)
        val = None
        if inv.ok and self.sb.exists("ref/probe.json"):
            try:
                val = json.loads(self.sb.read("ref/probe.json").decode("utf-8"))["s"].encode("utf-8")
            except Exception:
                self.res.harness_error = "reference probe produced undecodable json for %s %s" % (conv, expr)
        self.cache[key] = val
        return val


def diff(before, after):
    created = sorted(p for p in after if p not in before)
    removed = sorted(p for p in before if p not in after)
    changed = sorted(p for p in after if p in before and after[p] != before[p])
    return created, removed, changed


def execute(world, sb, res):
    sb.mkdir(world["dir"])
    sb.mkdir("elsewhere")
    sb.mkdir("ref")
    sb.mkdir(os.path.dirname(world["dir"] + "/" + world["src"]))
    for rel, data in world["others"]:
        sb.write(rel, data)
    ref = Ref(sb, res)
    src_rel = world["dir"] + "/" + world["src"]
    cwd = world["cwd"]
    how = world.get("how", "file")
    src_dir = os.path.dirname(src_rel)
    if how == "walk_noargs":        # `ucg build` from the source's directory builds every .ucg file in it
        cwd, argv = src_dir, ["build"]
    elif how == "walk_r":           # recursive walk from the project directory
        cwd, argv = world["dir"], ["build", "-r"]
    elif how == "walk_dir_arg":     # directory given as the argument
        argv = ["build", sb.p(src_dir) if world["abs"] else os.path.relpath(sb.p(src_dir), sb.p(cwd))]
    elif how == "dotslash":
        cwd, argv = src_dir, ["build", "./" + os.path.basename(src_rel)]
    elif world["abs"]:
        argv = ["build", sb.p(src_rel)]
    else:
        argv = ["build", os.path.relpath(sb.p(src_rel), sb.p(cwd))]
    if how != "file":
        res.probe("built_through_" + ("directory_walk" if how.startswith("walk") else "dotslash"))
    if cwd != world["dir"]:
        res.probe("built_from_other_cwd")
    steps = []
    for st in world["steps"]:
        f = st.get("fault")
        if f and f["kind"] == "efbig" and f.get("n") in ("all", "edges"):
            o = st["outs"][0]
            r = ref.get(o["conv"], o["expr"])
            ln = len(r) if r is not None else 0
            offs = list(range(0, ln + 1)) if f["n"] == "all" else sorted({0, 1, ln // 2, max(ln - 1, 0), ln})
            # first a clean build so that every torn write lands on a complete pre-existing artifact
            steps.append(dict(st, fault=None))
            for n in offs:
                steps.append(dict(st, fault={"kind": "efbig", "n": n}))
        else:
            steps.append(st)
    if world["pre"] in ("foreign", "foreign_binary"):
        convs = [o["conv"] for s in steps for o in s["outs"]]
        if convs:
            sb.write(artifact_path(world, convs[0]), ("FOREIGN-" + "x" * 40 + "\n") if world["pre"] == "foreign" else b"\x1f\x8b\x08\x00\xff\xfe caf\xe9 \x00\x01")
            res.probe("foreign_preexisting")

    had_failure = False
    link_target = world.get("src_symlink")
    if link_target:
        real_rel = world["dir"] + "/" + link_target
        sb.write(real_rel, "")
        sb.symlink(src_rel, os.path.relpath(sb.p(real_rel), os.path.dirname(sb.p(src_rel))))
        res.probe("source_is_symlink")
    for si, st in enumerate(steps):
        target_rel = real_rel if link_target else src_rel
        text = program(st)
        if not (sb.exists(target_rel) and os.path.isfile(sb.p(target_rel)) and sb.read(target_rel) == text.encode("utf-8")):
            sb.write(target_rel, text)
        else:
            res.probe("source_untouched_between_builds")
        outs = st["outs"]
        if outs and outs[0]["cls"] == "reordered":
            res.probe("equal_value_rendered_earlier_in_other_field_order")
        envtok = st.get("envtok")
        step_env = {"UCGSIM_TOK": envtok} if envtok else {}
        td = world.get("tmpdir", "unset")
        if td == "same_fs":
            sb.mkdir("tmp_same_fs")
            step_env["TMPDIR"] = sb.p("tmp_same_fs")
        elif td == "other_fs":
            step_env["TMPDIR"] = OTHER_FS_TMP
            res.probe("tmpdir_on_another_file_system")
        dep = st.get("dep_out")
        dep_rel = os.path.join(os.path.dirname(src_rel), "dep_with_out.ucg")
        dep_art = dep_ref = None
        if dep:
            sb.write(dep_rel, PRELUDE + 'let marker = "dep";\nout %s %s;\n' % (dep["conv"], dep["expr"]))
            dep_ref = ref.get(dep["conv"], dep["expr"])
            dep_art = dep_rel[:-4] + "." + EXT[dep["conv"]]
            res.probe("imports_a_file_with_its_own_out")
        elif sb.exists(dep_rel):
            sb.remove(dep_rel)
        refs = [ref.get(o["conv"], o["expr"], envtok if o["cls"] == "envdep" else None) for o in outs]
        if res.harness_error:
            return
        arts = [artifact_path(world, o["conv"]) for o in outs]
        fault = st.get("fault")
        fsize = None
        fault_target = arts[0] if arts else None
        undo = None
        if fault and fault_target:
            if fault["kind"] == "enospc":
                saved = sb.read(fault_target) if sb.exists(fault_target) and not os.path.islink(sb.p(fault_target)) and os.path.isfile(sb.p(fault_target)) else None
                sb.symlink(fault_target, "/dev/full")
                undo = ("unlink", saved)
            elif fault["kind"] == "eisdir":
                saved = sb.read(fault_target) if sb.exists(fault_target) and os.path.isfile(sb.p(fault_target)) else None
                if sb.exists(fault_target):
                    sb.remove(fault_target)
                sb.mkdir(fault_target)
                undo = ("rmdir", saved)
            elif fault["kind"] == "efbig":
                n = fault["n"]
                ln = len(refs[0]) if refs[0] is not None else 0
                if n == "mid":
                    n = ln // 2
                elif n == "last":
                    n = max(ln - 1, 0)
                elif n == "len":
                    n = ln
                fsize = int(n)
        comp = st.get("companion")
        run_argv = argv
        comp_art = comp_ref = None
        q_rel = os.path.join(os.path.dirname(src_rel), "qdir" if (comp and comp.get("subdir")) else "", "q_companion.ucg")
        if comp:
            sb.write(q_rel, PRELUDE + "out %s %s;\n" % (comp["conv"], comp["expr"]))
            comp_ref = ref.get(comp["conv"], comp["expr"])
            comp_art = q_rel[:-4] + "." + EXT[comp["conv"]]
            if sb.exists(comp_art):
                sb.remove(comp_art)
            q_arg = os.path.join(os.path.dirname(argv[-1]), "qdir" if comp.get("subdir") else "", "q_companion.ucg")
            if comp.get("subdir"):
                res.probe("companion_in_a_sub_directory")
            if comp.get("after"):
                run_argv = argv + [q_arg]
                res.probe("companion_built_last")
            else:
                run_argv = argv[:-1] + [q_arg, argv[-1]]
                res.probe("companion_built_first")
            if comp_ref is None and comp["cls"].startswith("late"):
                res.probe("companion_failed_late")
        else:
            for stale in (q_rel, os.path.join(os.path.dirname(src_rel), "qdir")):
                if sb.exists(stale):
                    sb.remove(stale)
        before = sb.snapshot(world["dir"])
        inv = sb.invoke(run_argv, cwd=cwd, fsize=fsize, env=step_env)
        after = sb.snapshot(world["dir"])
        created, removed, changed = diff(before, after)
        failed = not inv.ok
        if comp:
            # the companion's own outcome: artifact iff convertible; then it is taken out of the picture for the file under test
            got_q = sb.read(comp_art) if sb.exists(comp_art) and os.path.isfile(sb.p(comp_art)) else None
            cctx = "companion q_companion.ucg (`out %s %s;`) built before the source in one invocation\n--- exit=%s\n%s" % (
                comp["conv"], comp["expr"], inv.status, inv.out[-800:])
            if comp_ref is None and got_q is not None:
                res.violate("C14.left-behind", "companion · " + comp["conv"], "the companion's failed conversion left %s = %r\n%s" % (comp_art, got_q, cctx))
            if comp_ref is not None and got_q != comp_ref:
                res.violate("C14.bytes≠convert", comp["conv"], "companion artifact %s holds %r but convert evaluates to %r\n%s" % (comp_art, got_q, comp_ref, cctx))
            created = [p for p in created if p != comp_art]
            changed = [p for p in changed if p != comp_art]
            # per-file status of the source under test: its segment of the merged stream
            marker = "Building " + sb.norm(argv[-1])
            cut = inv.out.rfind(marker)
            if cut < 0:
                res.violate("C14.not-built", "with-companion", "the source was not built in the invocation it shares with its companion\n" + cctx)
                return
            seg_text = inv.out[cut:]
            nxt = seg_text.find("\nBuilding ", 1)
            if nxt >= 0:
                seg_text = seg_text[:nxt]
            # informational lines (converters announce what they skip) are not an error block
            seg = [l for l in seg_text.split("\n")[1:] if l.strip() and not _INFO.match(l)]
            failed = len(seg) > 0
            comp_failed = comp_ref is None
            if (inv.status != 0) != (failed or comp_failed) and not inv.timed_out:
                res.violate("C14.exit-status", "with-companion", "exit status %s although %s\n%s" % (
                    inv.status, "one of the two files failed" if (failed or comp_failed) else "both files built", cctx))
        if dep:
            # the imported library's artifact: complete or absent, and then out of the picture for the source under test
            got_d = sb.read(dep_art) if sb.exists(dep_art) and os.path.isfile(sb.p(dep_art)) else None
            if got_d is not None and dep_ref is not None and got_d != dep_ref:
                res.violate("C14.bytes≠convert", dep["conv"], "the imported library's artifact %s holds %r but convert evaluates to %r\n" % (dep_art, got_d, dep_ref))
            created = [p for p in created if p != dep_art]
            changed = [p for p in changed if p != dep_art]
        touched = created + removed + changed
        res.history.append({"step": si, "kind": st["k"], "outs": [[o["conv"], o["cls"]] for o in outs], "fault": fault,
                            "status": inv.status, "signal": inv.signal, "timed_out": inv.timed_out,
                            "created": created, "removed": removed, "changed": changed, "out": inv.out})
        if inv.timed_out:
            res.violate("C14.terminates", st["k"], "step %d: build did not terminate within the hang bound\n%s" % (si, program(st)))
            return
        ctx = "step %d (%s) of history; source:\n%s%s--- exit=%s signal=%s\n%s" % (
            si, st["k"], program(st), ("(built after q_companion.ucg: `out %s %s;` in the same invocation)\n" % (comp["conv"], comp["expr"])) if comp else "",
            inv.status, inv.signal, inv.out[-600:])

        def bytes_of(rel):
            return sb.read(rel) if sb.exists(rel) and os.path.isfile(sb.p(rel)) else None

        outcome = "?"
        nontrivial = False
        art_existed = bool(arts) and arts[0] in before
        if fault and fault_target:
            # ---- disk-fault mode: only "no silent corruption" is demanded -------------
            fired = False
            if fault["kind"] == "efbig":
                fired = refs[0] is not None and fsize < len(refs[0])
                if "File too large" in inv.out:
                    res.fault("efbig")
                    if fsize == 0:
                        res.probe("torn_first_byte")
                    elif refs[0] is not None and fsize == len(refs[0]) - 1:
                        res.probe("torn_last_byte")
                    else:
                        res.probe("torn_middle")
            elif fault["kind"] == "enospc":
                fired = True
                if "No space left" in inv.out:
                    res.fault("enospc")
            elif fault["kind"] == "eisdir":
                fired = True
                if "Is a directory" in inv.out:
                    res.fault("eisdir")
            stray = [p for p in touched if p != fault_target and not p.startswith(fault_target + "/")]
            if stray:
                res.violate("C14.stray-write", fault["kind"], "files other than the target artifact were touched under a disk fault: %s\n%s" % (stray, ctx))
            if not failed:
                if refs[0] is None:
                    res.violate("C14.unconvertible-accepted", outs[0]["conv"], "unconvertible value built successfully\n" + ctx)
                elif fault["kind"] == "efbig":
                    got = bytes_of(fault_target)
                    if got != refs[0]:
                        res.violate("C14.silent-corruption", "efbig", "build exited 0 under a %d-byte file size limit but the artifact holds %r, convert gives %r\n%s" % (fsize, got, refs[0], ctx))
                elif fault["kind"] == "enospc" and refs[0] == b"":
                    pass   # nothing to write: a full disk cannot get in the way of zero bytes
                else:
                    res.violate("C14.silent-corruption", fault["kind"], "build exited 0 although the artifact could not be written (%s)\n%s" % (fault["kind"], ctx))
            outcome = "fault-fired" if (fired and failed) else ("ok" if not failed else "failed")
            if fired and failed:
                nontrivial = True
            # undo the planted fault so that later steps see an ordinary directory again
            if undo:
                sb.remove(fault_target)
                if undo[1] is not None:
                    sb.write(fault_target, undo[1])
        elif st["k"] == "zero":
            if failed:
                res.violate("C14.no-out-fails", "zero", "a file without out failed to build\n" + ctx)
            if touched:
                res.violate("C14.extra-artifact", "zero", "a build without out touched %s\n%s" % (touched, ctx))
            outcome = "ok"
        elif st["k"] == "pre_error":
            if not failed:
                res.violate("C14.error-ignored", "pre_error", "build with a failing statement exited 0\n" + ctx)
            if touched:
                res.violate("C14.left-behind", "before-out · " + outs[0]["conv"], "the build failed before reaching out but touched %s\n%s" % (touched, ctx))
            outcome = "failed"
        elif len(outs) == 1 and refs[0] is not None and st["k"] in ("out", "post_error"):
            art = arts[0]
            got = bytes_of(art)
            if st["k"] == "out":
                if failed:
                    res.violate("C14.convertible-rejected", outs[0]["conv"], "convert accepts the value but the build with out failed\n" + ctx)
                else:
                    extra = [p for p in touched if p != art]
                    if extra:
                        res.violate("C14.name", outs[0]["conv"], "expected exactly one artifact %s; also touched: %s\n%s" % (art, extra, ctx))
                    if got is None:
                        res.violate("C14.name", outs[0]["conv"], "expected artifact %s is missing; touched: %s\n%s" % (art, touched, ctx))
                    elif got != refs[0]:
                        res.violate("C14.bytes≠convert", outs[0]["conv"], "artifact %s holds %r but convert evaluates to %r\n%s" % (art, got, refs[0], ctx))
                    if had_failure:
                        res.probe("success_after_failure")
                outcome = "ok" if not failed else "failed"
            else:
                res.probe("error_after_out")
                if not failed:
                    res.violate("C14.error-ignored", "post_error", "build with a failing statement after out exited 0\n" + ctx)
                extra = [p for p in touched if p != art]
                if extra:
                    res.violate("C14.name", outs[0]["conv"], "touched other paths than %s: %s\n%s" % (art, extra, ctx))
                if art in touched and got != refs[0]:
                    res.violate("C14.left-behind", "partial · " + outs[0]["conv"], "artifact %s changed to something that is not the complete conversion: %r\n%s" % (art, got, ctx))
                outcome = "failed"
        elif len(outs) == 1 and refs[0] is None:
            # unconvertible: build fails, tree untouched
            art = arts[0]
            if not failed:
                res.violate("C14.unconvertible-accepted", outs[0]["conv"], "convert rejects the value but the build with out exited 0\n" + ctx)
            else:
                nontrivial = True
            if touched:
                if art in created:
                    got = bytes_of(art)
                    kind = "empty" if got == b"" else "partial"
                elif art in changed or art in removed:
                    kind = "destroyed-old"
                else:
                    kind = "other-path"
                res.violate("C14.left-behind", "%s · %s" % (kind, outs[0]["conv"]),
                            "failed conversion left the directory changed: created=%s changed=%s removed=%s (artifact %s now %r)\n%s" % (
                                created, changed, removed, art, bytes_of(art), ctx))
            if art in before:
                res.probe("failed_conversion_over_existing_artifact")
            else:
                res.probe("failed_conversion_without_artifact")
            if outs[0]["cls"].startswith("late"):
                res.probe("streaming_converter_failed_late")
            outcome = "failed"
        elif len(outs) == 2:
            res.probe("two_outs")
            if st.get("two_shape") == "import_between":
                res.probe("import_between_two_outs")
            if st.get("two_shape", "top_top") != "top_top":
                res.probe("out_inside_module_body")
            if not failed:
                res.violate("C14.second-out-accepted", "%s,%s" % (outs[0]["conv"], outs[1]["conv"]), "a file with two out statements built successfully\n" + ctx)
            else:
                nontrivial = True
            art = arts[0]
            extra = [p for p in touched if p != art]
            if extra:
                res.violate("C14.second-out-written", "%s,%s" % (outs[0]["conv"], outs[1]["conv"]), "a rejected second out still touched %s\n%s" % (extra, ctx))
            if art in touched and refs[0] is not None and bytes_of(art) != refs[0]:
                res.violate("C14.left-behind", "partial · " + outs[0]["conv"], "first out's artifact %s is not the complete conversion: %r\n%s" % (art, bytes_of(art), ctx))
            outcome = "failed"
        if inv.signal is not None or (inv.status not in (0, 1) and not inv.timed_out):
            res.metric("abnormal_exit")
        tear = None
        if fault and fault["kind"] == "efbig" and refs and refs[0] is not None:
            tear = "first" if fsize == 0 else ("none" if fsize >= len(refs[0]) else ("last" if fsize == len(refs[0]) - 1 else "middle"))
        res.key([st["k"], [[o["conv"], o["cls"]] for o in outs], fault["kind"] if fault else None, tear, outcome,
                 art_existed, had_failure], nontrivial)
        if failed:
            had_failure = True


def shrink_candidates(world):
    w = world
    n = len(w["steps"])
    for i in range(n):
        if n > 1:
            c = dict(w, steps=w["steps"][:i] + w["steps"][i + 1:])
            yield c
    if w["others"]:
        yield dict(w, others=[])
    if w["pre"] != "none":
        yield dict(w, pre="none")
    if w.get("how", "file") != "file":
        yield dict(w, how="file")
    if w["abs"]:
        yield dict(w, abs=False)
    if w["cwd"] != w["dir"]:
        yield dict(w, cwd=w["dir"])
    if w["src"] != "p.ucg" and not w.get("src_symlink"):
        yield dict(w, src="p.ucg")
    if w.get("src_symlink"):
        c = dict(w, src="p.ucg")
        c.pop("src_symlink")
        yield c
    for i, st in enumerate(w["steps"]):
        if st.get("fault"):
            yield dict(w, steps=w["steps"][:i] + [dict(st, fault=None)] + w["steps"][i + 1:])
            f = st["fault"]
            if f["kind"] == "efbig" and f.get("n") in ("all", "edges"):
                for n_ in (0, 1, "mid", "last"):
                    yield dict(w, steps=w["steps"][:i] + [dict(st, fault={"kind": "efbig", "n": n_})] + w["steps"][i + 1:])
        if st.get("dep_out"):
            c3 = dict(st)
            c3.pop("dep_out")
            yield dict(w, steps=w["steps"][:i] + [c3] + w["steps"][i + 1:])
        if st.get("companion"):
            c2 = dict(st)
            c2.pop("companion")
            yield dict(w, steps=w["steps"][:i] + [c2] + w["steps"][i + 1:])
        if st["k"] in ("post_error", "pre_error"):
            yield dict(w, steps=w["steps"][:i] + [dict(st, k="out")] + w["steps"][i + 1:])
        if len(st["outs"]) == 2:
            yield dict(w, steps=w["steps"][:i] + [dict(st, outs=st["outs"][:1])] + w["steps"][i + 1:])


ASSUMPTIONS = [
    "'unconvertible' and the expected bytes are defined by the subject's own `convert` expression, as the property states it",
    "artifact extensions are taken from the converter documentation",
    "under injected disk errors only 'no silent corruption' is demanded: the property does not promise atomicity against disk faults",
]
