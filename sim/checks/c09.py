"""C09 — imports resolve against the importing file, run once, and cycles are errors.

The simulator owns the working directory and the tree (with a decoy tree that answers at
every path a cwd-relative resolution would reach), observes the import evaluation history
through TRACE lines, and checks values, evaluation counts and cycle diagnostics against a
memo-table model (DESIGN.md §3 C09)."""
import json
import os
import re

PROPERTY = "C09"
LEVEL = "exploration"
RULE = ("generated project trees of 2-8 files in nested directories; import / include-str expressions at 28 syntactic positions in entry "
        "and library files; paths spelled plain, ./, dir/../, redundant, up-and-down, absolute; random DAGs (diamonds, chains, one file under "
        "several spellings) and graphs with one back edge (3 forms x spellings, cycle length 1-3); unreadable / missing / broken import "
        "targets with a healthy decoy at the cwd-relative path; every world built from 3 working directories (project root, nested project "
        "directory, decoy directory) with the entry named relatively or absolutely. A case = one import/include site in its situation (plus one per back edge, "
        "fault and fail-message site); distinct = distinct (position, kind, spelling, entry-or-library file, target imported once or several "
        "times) resp. (back-edge form, spelling, cycle length, entry on the cycle?) resp. (fault kind, positions importing the broken file); "
        "non-trivial = a non-top-level position, a re-spelled path, a multiply imported target, a back edge, a fault or a fail-message site")

FAULT_KINDS = ["missing", "dir", "nonutf8", "syntax"]
TIERS = {
    "quick": {"runs": 1600, "wall_cap": 210},
    "thorough": {"runs": 30000, "wall_cap": 3300, "reexecute": 100},
}

# ---- site templates -------------------------------------------------------------------
# @E@ = the import/include expression yielding a string, @N@ = site number, @X@ = expected string (only where the template needs it)
POS = {
    "paren": 'let v@N@ = @E@;',
    "tuple_field": 'let v@N@ = {f = @E@}.f;',
    "list_elem": 'let v@N@ = [@E@].0;',
    "call_arg": 'let v@N@ = idf(@E@);',
    "func_body": 'let f@N@ = func (x) => @E@;\nlet u@N@ = f@N@(0);\nlet v@N@ = f@N@(1);',
    "map_cb": 'let v@N@ = map(func (x) => @E@, [1, 2, 3]).2;',
    "filter_cb": 'let w@N@ = filter(func (x) => @E@ == "@X@", ["hit"]);\nlet v@N@ = reduce(func (acc, x) => acc + x, "filtered:", w@N@);',
    "reduce_cb": 'let v@N@ = reduce(func (acc, x) => acc + @E@, "", [1]);',
    "reduce_acc": 'let v@N@ = reduce(func (acc, x) => acc + x, @E@, [""]);',
    "map_target": 'let v@N@ = map(idf, [@E@]).0;',
    "named_cb": 'let g@N@ = func (x) => @E@;\nlet v@N@ = map(g@N@, [1, 2]).1;',
    "deep_cb": 'let f@N@ = func (x) => map(func (y) => @E@, [x]).0;\nlet v@N@ = f@N@(1);',
    "module_body": 'let m@N@ = module {a = 1} => { let r = @E@; };\nlet v@N@ = m@N@{}.r;',
    "module_out_binding": 'let m@N@ = module {a = 1} => (r) { let r = @E@; };\nlet v@N@ = m@N@{};',
    "module_out_expr": 'let m@N@ = module {a = 1} => (@E@) { let r = 1; };\nlet v@N@ = m@N@{};',
    "module_param": 'let m@N@ = module {a = @E@} => { let r = mod.a; };\nlet v@N@ = m@N@{}.r;',
    "module_cb": 'let m@N@ = module {a = 1} => { let r = map(func (x) => @E@, [1]).0; };\nlet v@N@ = m@N@{}.r;',
    "select_arm": 'let v@N@ = select ("a", "dflt") => { a = @E@ };',
    "select_default": 'let v@N@ = select ("z", @E@) => { a = "A" };',
    "select_val": 'let v@N@ = select (@E@, "miss") => { "@X@" = "hit" };',
    "format_arg": 'let v@N@ = "@" % (@E@);',
    "format_template": 'let v@N@ = "@{@EQ@}" % {x = 1};',
    "copy_override": 'let b@N@ = {f = "x"};\nlet v@N@ = b@N@{f = @E@}.f;',
    "trace": 'let v@N@ = TRACE @E@;',
    "not": 'let v@N@ = select (not (@E@ == "@X@"), "x") => { true = "not-wrong", false = "not-right" };',
    "convert": 'let v@N@ = convert json @E@;',
    "in": 'let v@N@ = select (@E@ in ["@X@"], "x") => { true = "in-yes", false = "in-no" };',
    "binary_rhs": 'let v@N@ = "" + @E@;',
}
ALL_POS = ["top_let"] + sorted(POS)
INCLUDE_VIA_IDF = {"binary_rhs", "reduce_cb", "filter_cb", "not", "in", "reduce_acc"}
# positions whose import is *not* at the top level of a let (the ones the path rewriter has to reach through the walker)
SPELL = ["plain", "dot", "dotdot", "redundant", "updown", "abs", "abs_redundant", "backslash"]
FORMS = ["let", "expr", "called_func"]
PROBES = ["pos_" + p for p in ALL_POS] + ["fail_msg_site", "decoy_value_distinguishable", "three_spelling_same_file", "diamond",
                                         "back_edge_let", "back_edge_expr", "back_edge_called_func", "back_edge_at_position", "back_edge_in_module", "back_edge_in_callback", "cycle_len_1", "cycle_len_2", "cycle_len_3",
                                         "back_edge_respelled", "include_site", "lib_level_site", "fault_with_decoy", "identical_twin_files", "back_edge_via_hof", "entry_respelled", "cwd_entered_through_symlink", "built_by_ucg_test", "same_name_in_importers_directory", "library_is_a_symlink", "paths_differing_in_case_only", "import_search_path_points_at_decoys", "backslash_separators"]
DECOY_CWD = "decoy/d1/d2/d3"
DIRSETS = [["", "lib"], ["", "lib", "lib/deep"], ["app", "lib"], ["app", "lib", "shared/x"], ["", "a", "a/b", "a/b/c"], ["app/svc", "lib", ""],
           ["", "stdcfg"], ["app", "stdx/inner"]]


def expected_site_value(pos, x):
    if pos == "filter_cb":
        return "filtered:hit"
    if pos == "select_val":
        return "hit"
    if pos == "not":
        return "not-right"
    if pos == "in":
        return "in-yes"
    if pos == "convert":
        return json.dumps(x)
    return x


def generate(rng, tier, idx):
    if idx == 0:
        return all_positions_world("import")
    if idx == 1:
        return all_positions_world("include_str")
    dirs = rng.choice(DIRSETS)
    nlibs = rng.between(1, 6)
    ndata = rng.weighted([(0, 5), (1, 3), (2, 1)])
    files = [{"path": (rng.choice(dirs) + "/main.ucg").lstrip("/"), "uid": "E" + rng.token(5), "sites": []}]
    used = {files[0]["path"]}
    for i in range(nlibs):
        d = rng.choice(dirs)
        base = rng.choice(["lib", "util", "common", "x", "stdlib", "std_cfg", "std"]) + ("%d" % i if rng.chance(70) else "")
        p = (d + "/" + base + ".ucg").lstrip("/")
        while p in used:
            base += "_"
            p = (d + "/" + base + ".ucg").lstrip("/")
        used.add(p)
        files.append({"path": p, "uid": "L%d%s" % (i, rng.token(5)), "sites": []})
    data = []
    for i in range(ndata):
        d = rng.choice(dirs)
        data.append({"path": (d + "/data%d.txt" % i).lstrip("/"), "uid": "D%d%s" % (i, rng.token(6))})
    n = len(files)
    # swarm: a run favours a few positions and spellings
    fav_pos = rng.sample(ALL_POS, rng.between(2, 6))
    fav_spell = rng.sample(SPELL, rng.between(1, 3))

    def pick_pos():
        return rng.choice(fav_pos) if rng.chance(70) else rng.choice(ALL_POS)

    def pick_spell():
        return rng.choice(fav_spell) if rng.chance(70) else rng.choice(SPELL)

    # every library is imported by someone with a lower index -> connected DAG
    for j in range(1, n):
        i = rng.below(j) if rng.chance(70) else 0
        files[i]["sites"].append({"pos": pick_pos(), "kind": "import", "target": j, "spelling": pick_spell()})
    extra = rng.between(0, 7)
    for _ in range(extra):
        i = rng.below(n - 1)
        if rng.chance(25) and data:
            files[i]["sites"].append({"pos": pick_pos(), "kind": "include_str", "target": rng.below(len(data)), "spelling": pick_spell()})
        else:
            j = rng.between(i + 1, n - 1)
            files[i]["sites"].append({"pos": pick_pos(), "kind": "import", "target": j, "spelling": pick_spell()})
    if rng.chance(25):  # the same file under three spellings from one importer
        i = rng.below(n - 1)
        j = rng.between(i + 1, n - 1)
        for sp in rng.sample(SPELL, 3):
            files[i]["sites"].append({"pos": rng.choice(["top_let", "paren", "tuple_field"]), "kind": "import", "target": j, "spelling": sp})
    for f in files:
        f["sites"] = rng.shuffle(f["sites"])[:12]
    world = {"files": files, "data": data, "back_edge": None, "fault": None, "fail_site": None, "strict": True,
             "entry_abs": [rng.chance(25), rng.chance(25), rng.chance(25)], "dirs": dirs,
             # how the entry file itself is spelled on the command line (the top-level path is joined to the cwd, not normalised)
             "entry_spell": [rng.weighted([("plain", 6), ("dot", 2), ("dotdot", 2)]) for _ in range(3)],
             # `ucg test` goes through the same import machinery with the validate flag set on the entry's VM only
             "command": rng.weighted([("build", 4), ("test", 1)]),
             # the shell's view of the working directory: $PWD (logical path); one of the three directories may be entered through a symlink
             "cwd_symlinked": rng.chance(30),
             # the documented search path for imports, pointing at a tree that has a file at every relative path the project imports
             "import_path_env": rng.chance(20)}
    if world["command"] == "test":
        files[0]["path"] = files[0]["path"][:-len("main.ucg")] + "main_test.ucg"
    # re-establish reachability after truncation
    reach = reachable(world)
    for j in range(1, n):
        if j not in reach:
            files[0]["sites"].append({"pos": "top_let", "kind": "import", "target": j, "spelling": "plain"})
    if rng.chance(12) and len(files) >= 2:
        # two files whose paths differ only in letter case (this is a case-sensitive file system): different files, different values
        k = rng.between(1, len(files) - 1)
        d_, b_ = os.path.split(files[k]["path"])
        variant = (d_ + "/" if d_ else "") + (b_[0].upper() + b_[1:] if b_[0].islower() else b_[0].lower() + b_[1:])
        if all(g["path"] != variant for g in files):
            files.append({"path": variant, "uid": "CV" + rng.token(5), "sites": []})
            files[0]["sites"].append({"pos": rng.choice(["top_let", "paren"]), "kind": "import", "target": len(files) - 1, "spelling": rng.choice(["plain", "dot"])})
            world["case_variants"] = True
            n = len(files)
    real_dirs = [d for d in dirs]
    if len(real_dirs) >= 2 and rng.chance(15):
        # byte-identical twin files in two directories, each importing the sibling `tbase.ucg` of its own directory
        # (anything that identifies a file by its text instead of its path mixes them up)
        dA, dB = rng.sample(real_dirs, 2)
        tw_uid = "TW" + rng.token(5)
        # (positions whose template embeds the expected value would make the two texts differ - or, for a linked twin, be wrong by construction)
        pos = rng.choice([p_ for p_ in ALL_POS if p_ == "top_let" or "@X@" not in POS[p_]])
        sp = rng.choice(["plain", "dot"])
        base_idx = len(files)
        for d in (dA, dB):
            files.append({"path": (d + "/tbase.ucg").lstrip("/"), "uid": "TB" + rng.token(5), "sites": []})
        for k, d in enumerate((dA, dB)):
            files.append({"path": (d + "/twin.ucg").lstrip("/"), "uid": tw_uid, "sites": [{"pos": pos, "kind": "import", "target": base_idx + k, "spelling": sp}]})
        for k in (0, 1):
            files[0]["sites"].append({"pos": rng.choice(["top_let", "paren", "tuple_field"]), "kind": "import", "target": base_idx + 2 + k, "spelling": "plain"})
        world["twins"] = True
        world["twin_pair"] = [base_idx + 2, base_idx + 3]
        world["twin_link_wanted"] = rng.chance(45)
        n = len(files)
    if rng.chance(20):
        # name collision: a library in another directory imports its sibling with a bare let-import; a file of the same name,
        # with `id` of another type, sits in the directory of whoever imports that library.  Resolution against anything
        # but the library's own directory finds the wrong one (and trips a type error or evaluates the intruder).
        cands = []
        for i, f in enumerate(files):
            for s_ in f["sites"]:
                if s_["kind"] != "import":
                    continue
                lib = files[s_["target"]]
                ld, fd = os.path.dirname(lib["path"]), os.path.dirname(f["path"])
                if ld != fd:
                    cands.append((i, s_["target"]))
        if cands:
            imp_i, lib_i = rng.choice(cands)
            ld = os.path.dirname(files[lib_i]["path"])
            fd = os.path.dirname(files[imp_i]["path"])
            sib = {"path": (ld + "/collide.ucg").lstrip("/"), "uid": "CS" + rng.token(5), "sites": []}
            if all(g["path"] != sib["path"] for g in files):
                files.append(sib)
                files[lib_i]["sites"].append({"pos": "top_let", "kind": "import", "target": len(files) - 1, "spelling": rng.choice(["plain", "dot"])})
                world["intruders"] = [(fd + "/collide.ucg").lstrip("/")]
                n = len(files)
    mode = rng.weighted([("dag", 6), ("cycle", 3), ("fault", 2), ("fail_msg", 1)])
    if mode == "cycle":
        frm = rng.below(n)
        # back edge to the file itself or to an ancestor
        anc = sorted(ancestors(world, frm) | {frm})
        to = rng.choice(anc)
        # the back edge is a bare let-import (the only form the static checker follows), one of the two hand-picked forms, or an import at
        # any of the syntactic positions (module bodies, callbacks, select arms, ...)
        form = rng.weighted([("let", 3), ("expr", 1), ("called_func", 1), ("via_hof", 2), ("via_std_hof", 1), ("pos:" + rng.choice(sorted(POS)), 7)])
        world["back_edge"] = {"from": frm, "to": to, "form": form, "spelling": pick_spell()}
    elif mode == "fault":
        j = rng.between(1, n - 1)
        world["fault"] = {"target": j, "kind": rng.choice(FAULT_KINDS)}
    elif mode == "fail_msg":
        j = rng.between(1, n - 1)
        world["fail_site"] = {"target": j, "spelling": pick_spell(), "kind": "import", "fmt": rng.chance(50)}
    for f_ in files:
        for s_ in f_["sites"]:
            # (the compiler translates Windows-style separators for imports only; an include path is a plain file name)
            if s_["kind"] == "include_str" and s_["spelling"] == "backslash":
                s_["spelling"] = "plain"
    if world.get("twin_link_wanted"):
        # ... not a copy but a symbolic link to the first twin (a shared template): the file that contains the import expression is the
        # one that was named, so its directory - not the link target's - decides what `tbase.ucg` means.  Only when nothing else was
        # attached to either twin afterwards (the two must stay byte-identical by construction).
        a_, b_ = world["twin_pair"]
        be_ = world["back_edge"]
        untouched = (len(files[a_]["sites"]) == 1 and len(files[b_]["sites"]) == 1 and files[a_]["sites"][0]["pos"] == files[b_]["sites"][0]["pos"]
                     and not (be_ and (be_["from"] in (a_, b_) or be_["to"] in (a_, b_)))
                     and not (world["fault"] and world["fault"]["target"] in (a_, b_)))
        if untouched:
            files[b_]["symlink_to"] = a_
    return world


def all_positions_world(kind):
    files = [{"path": "app/main.ucg", "uid": "Eall", "sites": []}, {"path": "lib/one.ucg", "uid": "Lone", "sites": []},
             {"path": "lib/deep/two.ucg", "uid": "Ltwo", "sites": []}]
    data = [{"path": "lib/data0.txt", "uid": "Dzero"}]
    for k, pos in enumerate(ALL_POS):
        if kind == "import":
            files[0]["sites"].append({"pos": pos, "kind": "import", "target": 1 + k % 2, "spelling": SPELL[k % 5]})
        else:
            files[0]["sites"].append({"pos": pos, "kind": "include_str", "target": 0, "spelling": SPELL[k % 5]})
    if kind != "import":
        files[0]["sites"].append({"pos": "top_let", "kind": "import", "target": 1, "spelling": "plain"})
        files[0]["sites"].append({"pos": "top_let", "kind": "import", "target": 2, "spelling": "plain"})
    return {"files": files, "data": data, "back_edge": None, "fault": None, "fail_site": None, "strict": True,
            "entry_abs": [False, True, False], "dirs": ["app", "lib", "lib/deep"]}


def reachable(world):
    files = world["files"]
    seen = {0}
    stack = [0]
    while stack:
        i = stack.pop()
        for s in files[i]["sites"]:
            if s["kind"] == "import" and s["target"] not in seen:
                seen.add(s["target"])
                stack.append(s["target"])
    return seen


def ancestors(world, j):
    files = world["files"]
    out = set()
    changed = True
    targets = {j}
    while changed:
        changed = False
        for i, f in enumerate(files):
            if i in out:
                continue
            if any(s["kind"] == "import" and s["target"] in targets for s in f["sites"]):
                out.add(i)
                targets.add(i)
                changed = True
    return out


def spelled(frm_path, to_path, how, proj_abs):
    fd = os.path.dirname(frm_path)
    rel = os.path.relpath(to_path, fd or ".")
    if how == "plain":
        return rel
    if how == "dot":
        return "./" + rel
    if how == "dotdot":
        td = os.path.dirname(rel)
        parts = [p for p in td.split("/") if p and p != ".."]
        if parts and not td.startswith(".."):
            return parts[0] + "/../" + rel
        return "./" + rel
    if how == "redundant":
        return "./" + rel.replace("/", "/./") if "/" in rel else "././" + rel
    if how == "updown":
        # leave the importing file's directory and come back in
        if fd:
            last = fd.split("/")[-1]
            return "../" + last + "/" + rel
        return "./" + rel
    if how == "abs":
        return proj_abs + "/" + to_path
    if how == "backslash":
        # Windows-style separators are legal in import strings and mean the same file
        return rel.replace("/", "\\")
    if how == "abs_redundant":
        # absolute, with segments that cancel out (the project directory's own name is known to exist)
        return proj_abs + "/./../" + os.path.basename(proj_abs) + "/" + to_path.replace("/", "/./")
    raise ValueError(how)


def spelling_class(text):
    if text.startswith("/"):
        return "abs"
    if "/../" in text or text.startswith("../") and "/" in text[3:] and os.path.normpath(text) != text:
        return "dotdot"
    if os.path.normpath(text) != text:
        return "redundant"
    return "plain"


def model_ids(world):
    """id string of every file: uid[ids of its sites' targets, in site order]."""
    files = world["files"]
    memo = {}

    def idof(i):
        if i in memo:
            return memo[i]
        parts = []
        for s in files[i]["sites"]:
            parts.append(expected_site_value(s["pos"], target_value(s)))
        memo[i] = files[i]["uid"] + "[" + ",".join(parts) + "]"
        return memo[i]

    def target_value(s):
        if s["kind"] == "import":
            return idof(s["target"])
        return world["data"][s["target"]]["uid"]

    return [idof(i) for i in range(len(files))], target_value


def escape(s):
    return s.replace("\\", "\\\\").replace('"', '\\"')


def render_file(world, i, proj_abs, ids, target_value):
    files = world["files"]
    f = files[i]
    L = ['let t = TRACE "%s";' % f["uid"], "let idf = func (x) => x;"]
    vs = []
    for n, s in enumerate(f["sites"]):
        tpath = files[s["target"]]["path"] if s["kind"] == "import" else world["data"][s["target"]]["path"]
        p = escape(spelled(f["path"], tpath, s["spelling"], proj_abs))
        x = escape(target_value(s))
        if s["pos"] == "top_let":
            if s["kind"] == "import":
                L.append('let s%d = import "%s";\nlet v%d = s%d.id;\nlet typed%d = s%d.id + "-typed";' % (n, p, n, n, n, n))
            else:
                L.append('let v%d = include str "%s";' % (n, p))
        else:
            # include values go through the identity function: the static checker types `include str` as a narrowed union and
            # rejects e.g. `"" + include str ...` (checker false positives are C07's business, not this property's)
            if s["kind"] == "import":
                e = '(import "%s").id' % p
            elif s["pos"] in INCLUDE_VIA_IDF:
                e = 'idf(include str "%s")' % p
            else:
                e = '(include str "%s")' % p
            L.append(POS[s["pos"]].replace("@EQ@", e.replace("\\", "\\\\").replace('"', '\\"')).replace("@E@", e).replace("@N@", str(n)).replace("@X@", x))
        vs.append("v%d" % n)
    be = world["back_edge"]
    if be and be["from"] == i:
        p = escape(spelled(f["path"], files[be["to"]]["path"], be["spelling"], proj_abs))
        if be["form"] == "let":
            L.append('let back = import "%s";' % p)
        elif be["form"] == "expr":
            L.append('let back = (import "%s").id;' % p)
        elif be["form"] == "called_func":
            L.append('let backf = func (x) => (import "%s").id;\nlet back = backf(1);' % p)
        elif be["form"] == "via_hof":
            # the callback holding the back edge is invoked by a function that lives in a helper file without imports of its own
            hp = os.path.relpath("hof_helper.ucg", os.path.dirname(f["path"]) or ".")
            # (the helper's function is bound to a name first: the static checker rejects `m.f(1)` on an imported user file - C07's business)
            L.append('let hof = import "%s";\nlet hof_apply = hof.apply;\nlet back = hof_apply(func (x) => (import "%s").id, 1);' % (hp if hp.startswith(".") else "./" + hp, p))
        elif be["form"] == "via_std_hof":
            L.append('let fnl = import "std/functional.ucg";\nlet mb = fnl.maybe{val = 1};\nlet mb_do = mb.do;\nlet back = mb_do(func (x) => (import "%s").id);' % p)
        else:
            pos = be["form"].split(":", 1)[1]
            e = '(import "%s").id' % p
            L.append(POS[pos].replace("@EQ@", e.replace("\\", "\\\\").replace('"', '\\"')).replace("@E@", e).replace("@N@", "back").replace("@X@", "zz"))
    if vs:
        # values pass through the identity function so that the static checker's opinion about them (C07's business) stays out of the way
        L.append('let id = "%s[" + %s + "]";' % (f["uid"], ' + "," + '.join("idf(%s)" % v for v in vs)))
    else:
        L.append('let id = "%s[]";' % f["uid"])
    if i == 0:
        L.append("out json {id = id%s};" % "".join(", v%d = v%d" % (n, n) for n in range(len(vs))))
    return "\n".join(L) + "\n"


def fail_entry_name(world):
    return "failmain_test.ucg" if world.get("command") == "test" else "failmain.ucg"


def render_fail_entry(world, proj_abs):
    fs = world["fail_site"]
    f0 = world["files"][0]
    d = os.path.dirname(f0["path"])
    p = escape(spelled((d + "/" + fail_entry_name(world)).lstrip("/"), world["files"][fs["target"]]["path"], fs["spelling"], proj_abs))
    if fs.get("fmt"):
        return 'let v = fail "stop: @" %% ((import "%s").id);\n' % p
    return 'let v = fail (import "%s").id;\n' % p


def render(world):
    ids, tv = model_ids(world)
    out = {"files": {f["path"]: render_file(world, i, "<ROOT>/proj", ids, tv) for i, f in enumerate(world["files"])},
           "data": {d["path"]: d["uid"] for d in world["data"]}, "decoy_cwd": DECOY_CWD,
           "back_edge": world["back_edge"], "fault": world["fault"], "fail_site": world["fail_site"]}
    if world["fail_site"]:
        out["failmain"] = render_fail_entry(world, "<ROOT>/proj")
    return out


_TRACE = re.compile(r'^TRACE: "([A-Za-z0-9-]+)" = ', re.M)


def execute(world, sb, res):
    files = world["files"]
    proj_abs = sb.p("proj")
    ids, target_value = model_ids(world)
    # ---- project tree ----------------------------------------------------------------------
    for d in world["dirs"]:
        sb.mkdir("proj/" + d)
    for i, f in enumerate(files):
        if f.get("symlink_to") is not None:
            tgt = files[f["symlink_to"]]["path"]
            sb.symlink("proj/" + f["path"], os.path.relpath(tgt, os.path.dirname(f["path"]) or "."))
            res.probe("library_is_a_symlink")
            continue
        sb.write("proj/" + f["path"], render_file(world, i, proj_abs, ids, target_value))
    if world.get("case_variants"):
        res.probe("paths_differing_in_case_only")
    if world.get("import_path_env"):
        res.probe("import_search_path_points_at_decoys")
    if any(s_["spelling"] == "backslash" and "/" in os.path.relpath(
            files[s_["target"]]["path"] if s_["kind"] == "import" else world["data"][s_["target"]]["path"], os.path.dirname(f_["path"]) or ".")
           for f_ in files for s_ in f_["sites"]):
        res.probe("backslash_separators")
    for d in world["data"]:
        sb.write("proj/" + d["path"], d["uid"])
    for k, ip in enumerate(world.get("intruders", [])):
        if not sb.exists("proj/" + ip):
            sb.write("proj/" + ip, 'let t = TRACE "decoy-intruder%d";\nlet id = 7;\n' % k)
            res.probe("same_name_in_importers_directory")
    if world["back_edge"] and world["back_edge"]["form"] == "via_hof":
        sb.write("proj/hof_helper.ucg", "let apply = func (f, x) => f(x);\nlet twice = func (f, x) => f(f(x));\n")
        res.probe("back_edge_via_hof")
    entry_dir = os.path.dirname(files[0]["path"])
    fail_entry = None
    if world["fail_site"]:
        fail_entry = (entry_dir + "/" + fail_entry_name(world)).lstrip("/")
        sb.write("proj/" + fail_entry, render_fail_entry(world, proj_abs))
        res.probe("fail_msg_site")
    fault = world["fault"]
    if fault:
        tp = "proj/" + files[fault["target"]]["path"]
        sb.remove(tp)
        if fault["kind"] == "dir":
            sb.mkdir(tp)
        elif fault["kind"] == "nonutf8":
            sb.write(tp, b'let id = "\xff\xfe";\n')
        elif fault["kind"] == "syntax":
            sb.write(tp, "let id = ;\n")
        res.probe("fault_with_decoy")
    # ---- decoy tree: a healthy file wherever a cwd-relative resolution of any site path would land -----
    sb.mkdir(DECOY_CWD)
    decoy_uids = ["decoy-intruder%d" % k for k in range(len(world.get("intruders", [])))]
    site_texts = []
    for i, f in enumerate(files):
        for s in f["sites"]:
            tpath = files[s["target"]]["path"] if s["kind"] == "import" else world["data"][s["target"]]["path"]
            site_texts.append((s["kind"], spelled(f["path"], tpath, s["spelling"], proj_abs)))
    if world["back_edge"]:
        be = world["back_edge"]
        site_texts.append(("import", spelled(files[be["from"]]["path"], files[be["to"]]["path"], be["spelling"], proj_abs)))
    if world["fail_site"]:
        fs = world["fail_site"]
        site_texts.append(("import", spelled(fail_entry, files[fs["target"]]["path"], fs["spelling"], proj_abs)))
    planted = {}
    decoy_pos = {}
    text_pos = {}
    for i, f in enumerate(files):
        for s in f["sites"]:
            tpath = files[s["target"]]["path"] if s["kind"] == "import" else world["data"][s["target"]]["path"]
            text_pos.setdefault(spelled(f["path"], tpath, s["spelling"], proj_abs).replace("\\", "/"), set()).add(s["pos"])
    for kind, text in site_texts:
        text = text.replace("\\", "/")
        if text.startswith("/"):
            continue
        # every intermediate directory of the un-normalised path must exist for the OS
        cur = DECOY_CWD
        for comp in text.split("/")[:-1]:
            cur = os.path.normpath(os.path.join(cur, comp))
            if cur.startswith("decoy"):
                sb.mkdir(cur)
        # where the OS resolves cwd/text, and where a purely lexical normalisation of the *relative* text
        # (which silently drops leading `..`) would land
        lex = []
        for comp in text.split("/"):
            if comp == "..":
                if lex:
                    lex.pop()
            elif comp not in (".", ""):
                lex.append(comp)
        for full in (os.path.normpath(os.path.join(DECOY_CWD, text)), os.path.normpath(os.path.join(DECOY_CWD, "/".join(lex)))):
            if full.startswith("decoy/") and full in planted:
                decoy_pos[planted[full]] |= text_pos.get(text, set())
            if not full.startswith("decoy/") or full in planted:
                continue
            uid = "decoy-%d" % len(planted)
            planted[full] = uid
            decoy_uids.append(uid)
            decoy_pos[uid] = set()
            decoy_pos[uid] |= text_pos.get(text, set())
            if kind == "import":
                sb.write(full, 'let t = TRACE "%s";\nlet id = "%s";\n' % (uid, uid))
            else:
                sb.write(full, uid)
    if planted:
        res.probe("decoy_value_distinguishable")

    # ---- probes / key -------------------------------------------------------------------------
    sitekey = set()
    incoming = {}
    for i, f in enumerate(files):
        if i > 0 and f["sites"]:
            res.probe("lib_level_site")
        for s in f["sites"]:
            res.probe("pos_" + s["pos"])
            sitekey.add((s["pos"], s["kind"], s["spelling"]))
            if s["kind"] == "include_str":
                res.probe("include_site")
            else:
                incoming.setdefault(s["target"], []).append((i, s["spelling"]))
    multi = {j: v for j, v in incoming.items() if len(v) >= 2}
    if world.get("twins"):
        res.probe("identical_twin_files")
        res.key(["twins"], True)
    if any(len(set(sp for _, sp in v)) >= 3 for v in multi.values()):
        res.probe("three_spelling_same_file")
    if any(len(set(i for i, _ in v)) >= 2 for v in multi.values()):
        res.probe("diamond")
    be = world["back_edge"]
    cyc_len = None
    if be:
        res.probe("back_edge_" + ({"via_hof": "called_func", "via_std_hof": "called_func"}.get(be["form"], be["form"]) if ":" not in be["form"] else "at_position"))
        if be["form"] in ("pos:module_body", "pos:module_cb", "pos:module_out_expr", "pos:module_out_binding", "pos:module_param"):
            res.probe("back_edge_in_module")
        if be["form"] in ("pos:map_cb", "pos:filter_cb", "pos:reduce_cb", "pos:named_cb", "pos:deep_cb"):
            res.probe("back_edge_in_callback")
        cyc_len = cycle_length(world)
        if cyc_len and cyc_len <= 3:
            res.probe("cycle_len_%d" % cyc_len)
        if be["spelling"] not in ("plain",):
            res.probe("back_edge_respelled")
    for i, f in enumerate(files):
        for s in f["sites"]:
            multi_t = s["kind"] == "import" and s["target"] in multi
            res.key(["site", s["pos"], s["kind"], s["spelling"], "entry" if i == 0 else "lib", "multiply-imported" if multi_t else "single"],
                    s["pos"] != "top_let" or s["spelling"] != "plain" or multi_t)
    if be:
        res.key(["back_edge", be["form"], be["spelling"], cyc_len, "entry-on-cycle" if be["to"] == 0 else "libs-only"], True)
    if fault:
        res.key(["fault", fault["kind"], sorted(set(s["pos"] for f in files for s in f["sites"] if s["kind"] == "import" and s["target"] == fault["target"]))], True)
    if world["fail_site"]:
        res.key(["fail_msg", world["fail_site"]["spelling"], bool(world["fail_site"].get("fmt"))], True)

    # ---- builds from three working directories -----------------------------------------------
    nested = next((d for d in world["dirs"] if d and d != entry_dir), None)
    cwds = [("root", "proj"), ("nested", "proj/" + nested if nested else "elsewhere"), ("decoy", DECOY_CWD)]
    sb.mkdir("elsewhere")
    command = world.get("command", "build")
    logical = {}
    if world.get("cwd_symlinked"):
        # the second directory is entered through a symbolic link living somewhere else; the process's physical cwd is the target,
        # $PWD keeps the link's path, relative arguments mean what the operating system says they mean (physical `..`)
        sb.mkdir("links/here")
        sb.symlink("links/here/into", os.path.relpath(sb.p(cwds[1][1]), sb.p("links/here")))
        logical["nested"] = "links/here/into"
        res.probe("cwd_entered_through_symlink")
    if command == "test":
        res.probe("built_by_ucg_test")
    entry = fail_entry if fail_entry else files[0]["path"]
    art = "proj/" + files[0]["path"][:-4] + ".json"
    observed = {}
    for k, (cname, cwd) in enumerate(cwds):
        arg = proj_abs + "/" + entry if world["entry_abs"][k] else os.path.relpath(sb.p("proj/" + entry), sb.p(cwd))
        es = world.get("entry_spell", ["plain"] * 3)[k]
        if es == "dot" and not arg.startswith("/"):
            arg = "./" + arg
            res.probe("entry_respelled")
        elif es == "dotdot":
            # <dir of the entry>/../<that dir>/<entry>: the directory exists, so the OS and the lexical reading agree
            d, b = os.path.split(arg)
            last = os.path.basename(os.path.dirname(sb.p("proj/" + entry)))
            arg = os.path.join(d, "..", last, b)
            res.probe("entry_respelled")
        if sb.exists(art):
            sb.remove(art)
        argv = [command, arg] if world["strict"] else ["--no-strict", command, arg]
        run_env = {"PWD": sb.p(logical.get(cname, cwd))}
        if world.get("import_path_env"):
            run_env["UCG_IMPORT_PATH"] = sb.p(DECOY_CWD) + ":" + sb.p("elsewhere")
        inv = sb.invoke(argv, cwd=logical.get(cname, cwd), env=run_env)
        out = inv.out
        traces = _TRACE.findall(out)
        artifact = None
        if sb.exists(art):
            try:
                artifact = json.loads(sb.read(art).decode("utf-8"))
            except Exception:
                artifact = "undecodable"
        res.history.append({"cwd": cname, "argv": inv.argv, "status": inv.status, "signal": inv.signal, "timed_out": inv.timed_out,
                            "traces": traces, "artifact": artifact, "out": out[-4000:]})
        ctx = "cwd=%s (%s) argv: ucg %s\n--- exit=%s signal=%s timed_out=%s\n%s" % (cname, cwd, " ".join(inv.argv), inv.status, inv.signal, inv.timed_out, out[-1800:])
        observed[cname] = (inv.status, artifact)
        decoy_in_out = [u for u in decoy_uids if re.search(r"\b%s\b" % re.escape(u), out)]

        if be:
            # a back edge that is evaluated must end in an import-cycle diagnostic
            spelled_tag = "respelled" if be["spelling"] != "plain" else "plain"
            if inv.timed_out:
                res.violate("C09.cycle-not-diagnosed", "timeout · %s" % be["form"], "the build did not terminate within the hang bound\n" + ctx)
                return
            diagnosed = (inv.status == 1 and re.search(r"import cycle", out, re.I))
            if not diagnosed:
                if inv.signal is not None or inv.status in (134, 101) or "overflowed its stack" in out:
                    kind = "overflow"
                elif inv.status == 0:
                    kind = "succeeded"
                else:
                    kind = "other-error"
                res.violate("C09.cycle-not-diagnosed", "%s · %s" % (kind, be["form"]),
                            "cycle of length %s closed by a back edge of form %r spelled %r (%s) was not reported as an import cycle\n%s" % (
                                cyc_len, be["form"], be["spelling"], spelled_tag, ctx))
            continue

        if inv.timed_out:
            res.violate("C09.terminates", cname, "the build did not terminate within the hang bound\n" + ctx)
            return

        if world["fail_site"]:
            fs = world["fail_site"]
            want = ids[fs["target"]]
            if decoy_in_out:
                res.violate("C09.wrong-file", "resolved-against-cwd", "the fail message was computed from the decoy file %s (resolved against the working directory)\n%s" % (decoy_in_out, ctx))
            elif inv.status == 0:
                res.violate("C09.fail-ignored", "fail_msg", "a file whose only statement is a fail expression built successfully\n" + ctx)
            elif want not in out:
                res.violate("C09.cwd-dependent" if cname != "root" and observed.get("root", (None,))[0] == 1 else "C09.wrong-value", "fail_msg",
                            "the diagnostic does not carry the imported id %r\n%s" % (want, ctx))
            continue

        if fault:
            res.fault(fault["kind"]) if inv.status != 0 else None
            # the property does not say how an unreadable import fails; it must not be answered by the decoy
            if decoy_in_out or (isinstance(artifact, dict) and any(u in json.dumps(artifact) for u in decoy_uids)):
                res.violate("C09.wrong-file", "broken-target-answered-by-decoy", "(fault %s) a broken import target was answered by the decoy file at the cwd-relative path\n" % fault["kind"] + ctx)
            if inv.status == 0:
                res.metric("build_succeeded_despite_broken_import")
            continue

        # ---- fault-free DAG: values, evaluation counts ---------------------------------------
        if inv.status != 0:
            root_ok = observed.get("root", (None,))[0] == 0
            bad_sites = sorted(set(s["pos"] for f in files for s in f["sites"] if s["pos"] != "top_let"))
            res.violate("C09.cwd-dependent" if (cname != "root" and root_ok) else "C09.build-fails", "build-fails",
                        "a valid project failed to build from cwd=%s%s (non-top-level positions present: %s)\n%s" % (
                            cname, " although it builds from the project root" if root_ok and cname != "root" else "", bad_sites, ctx))
            continue
        if not isinstance(artifact, dict):
            res.violate("C09.no-artifact", cname, "build exited 0 but %s is %r\n%s" % (art, artifact, ctx))
            continue
        for nsite, s in enumerate(files[0]["sites"]):
            want = expected_site_value(s["pos"], target_value(s))
            got = artifact.get("v%d" % nsite)
            if got != want:
                blob = json.dumps(got)
                hit = [u for u in decoy_uids if re.search(r"%s\b" % re.escape(u), blob)]
                if hit:
                    culprit = sorted(set().union(*[decoy_pos.get(u, set()) for u in hit])) or [s["pos"]]
                    res.violate("C09.wrong-file", "resolved-against-cwd", "site v%d of the entry (%s at position %s, path spelled %s) evaluated to %r, which contains the decoy id %s "
                                "(an import/include at position %s was resolved against the working directory); expected %r\n%s" % (
                                    nsite, s["kind"], s["pos"], s["spelling"], got, hit, culprit, want, ctx))
                else:
                    res.violate("C09.wrong-value", s["pos"], "site v%d (%s at position %s, spelled %s) = %r; expected %r\n%s" % (
                        nsite, s["kind"], s["pos"], s["spelling"], got, want, ctx))
                break
        else:
            if artifact.get("id") != ids[0]:
                res.violate("C09.wrong-value", "id", "entry id %r; expected %r\n%s" % (artifact.get("id"), ids[0], ctx))
        # evaluation history: every reachable file exactly once, decoys never
        counts = {}
        for u in traces:
            counts[u] = counts.get(u, 0) + 1
        dec = [u for u in counts if u.startswith("decoy-")]
        if dec and not res.violations:
            pos = "+".join(sorted(set().union(*[decoy_pos.get(u, set()) for u in dec]))) or "unknown"
            res.violate("C09.wrong-file", "resolved-against-cwd", "candidate positions: %s\n" % pos + "decoy file(s) %s were evaluated (an import was resolved against the working directory)\n%s" % (dec, ctx))
        reach_now = reachable(world)
        same_uid = {}
        for i, f in enumerate(files):
            if i in reach_now:
                same_uid[f["uid"]] = same_uid.get(f["uid"], 0) + 1
        for i, f in enumerate(files):
            c = counts.get(f["uid"], 0)
            if same_uid.get(f["uid"], 1) > 1:
                if c != same_uid[f["uid"]]:
                    res.violate("C09.evaluated-twice" if c > same_uid[f["uid"]] else "C09.not-evaluated", "twins",
                                "%d byte-identical files carry the marker %s; it was evaluated %d times\n%s" % (same_uid[f["uid"]], f["uid"], c, ctx))
                    break
                continue
            if c > 1:
                how = "multi-spelling" if len(set(sp for _, sp in incoming.get(i, []))) > 1 else "single-spelling"
                res.violate("C09.evaluated-twice", how, "%s was evaluated %d times in one build (imported by %s)\n%s" % (f["path"], c, incoming.get(i), ctx))
                break
            if c == 0 and i in reachable(world):
                res.violate("C09.not-evaluated", "reachable", "%s is imported but its TRACE never appeared\n%s" % (f["path"], ctx))
                break
    # values must not depend on the working directory (covered by the model per cwd; kept as a direct cross-check)
    if not be and not fault and not world["fail_site"]:
        arts = [observed[c][1] for c in ("root", "nested", "decoy") if c in observed and observed[c][0] == 0]
        if len(arts) >= 2 and any(a != arts[0] for a in arts[1:]):
            if not res.violations:
                res.violate("C09.cwd-dependent", "artifact", "artifacts differ between working directories: %s" % arts)


def find_deep_decoy(blob, decoy_uids):
    hit = [u for u in decoy_uids if u in blob]
    return " (contains decoy id %s: an import inside a library resolved against the working directory)" % hit if hit else ""


def culprit_positions(world):
    pos = sorted(set(s["pos"] for f in world["files"] for s in f["sites"] if s["pos"] not in ("top_let",)))
    return pos[0] if len(pos) == 1 else "several"


def cycle_length(world):
    be = world["back_edge"]
    if be["from"] == be["to"]:
        return 1
    # shortest import path to -> ... -> from, plus the back edge
    files = world["files"]
    dist = {be["to"]: 1}
    q = [be["to"]]
    while q:
        i = q.pop(0)
        for s in files[i]["sites"]:
            if s["kind"] == "import" and s["target"] not in dist:
                dist[s["target"]] = dist[i] + 1
                q.append(s["target"])
    return dist.get(be["from"])


def shrink_candidates(world):
    w = world
    files = w["files"]
    n = len(files)
    # drop a site
    for i, f in enumerate(files):
        for k in range(len(f["sites"])):
            c = dict(w, files=files[:i] + [dict(f, sites=f["sites"][:k] + f["sites"][k + 1:])] + files[i + 1:])
            if _valid(c):
                yield c
    # drop a library that nobody references
    for d in range(1, n):
        ref = any(s["kind"] == "import" and s["target"] == d for f in files for s in f["sites"])
        be, fl, fs = w["back_edge"], w["fault"], w["fail_site"]
        if ref or (be and d in (be["from"], be["to"])) or (fl and fl["target"] == d) or (fs and fs["target"] == d):
            continue

        def ri(j):
            return j if j < d else j - 1
        nf = [dict(f, sites=[dict(s, target=ri(s["target"])) if s["kind"] == "import" else s for s in f["sites"]]) for k, f in enumerate(files) if k != d]
        c = dict(w, files=nf)
        if be:
            c["back_edge"] = dict(be, **{"from": ri(be["from"]), "to": ri(be["to"])})
        if fl:
            c["fault"] = dict(fl, target=ri(fl["target"]))
        if fs:
            c["fail_site"] = dict(fs, target=ri(fs["target"]))
        yield c
    if w["data"] and not any(s["kind"] == "include_str" for f in files for s in f["sites"]):
        yield dict(w, data=[])
    if w.get("intruders"):
        yield dict(w, intruders=[])
    # simplify sites
    for i, f in enumerate(files):
        for k, s in enumerate(f["sites"]):
            if s["spelling"] != "plain":
                yield dict(w, files=files[:i] + [dict(f, sites=f["sites"][:k] + [dict(s, spelling="plain")] + f["sites"][k + 1:])] + files[i + 1:])
            if s["pos"] != "top_let":
                yield dict(w, files=files[:i] + [dict(f, sites=f["sites"][:k] + [dict(s, pos="top_let")] + f["sites"][k + 1:])] + files[i + 1:])
    if w["back_edge"] and w["back_edge"]["spelling"] != "plain":
        yield dict(w, back_edge=dict(w["back_edge"], spelling="plain"))
    if w["fail_site"] and w["fail_site"]["spelling"] != "plain":
        yield dict(w, fail_site=dict(w["fail_site"], spelling="plain"))
    if any(w["entry_abs"]):
        yield dict(w, entry_abs=[False, False, False])
    if any(x != "plain" for x in w.get("entry_spell", [])):
        yield dict(w, entry_spell=["plain"] * 3)
    if w.get("cwd_symlinked"):
        yield dict(w, cwd_symlinked=False)
    # flatten directories
    for i, f in enumerate(files):
        if "/" in f["path"]:
            newp = os.path.basename(f["path"])
            if all(g["path"] != newp for g in files):
                yield dict(w, files=files[:i] + [dict(f, path=newp)] + files[i + 1:], dirs=sorted(set(w["dirs"]) | {""}))


def _valid(w):
    """every library still reachable from the entry; back edge endpoints still on a cycle"""
    if len(reachable(w)) != len(w["files"]):
        return False
    be = w["back_edge"]
    if be and be["from"] != be["to"] and be["to"] not in (ancestors(w, be["from"]) | {be["from"]}):
        return False
    return True


ASSUMPTIONS = [
    "resolve(F, p) = lexical normalisation of dir(F)/p; no symlinked directories are generated (lexical and OS resolution would disagree about link/..)",
    "one evaluation of an imported file = one `TRACE \"<uid>\"` line on the merged stream",
    "for unreadable import targets only termination and 'never answered by the decoy' are demanded",
]
