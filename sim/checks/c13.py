"""C13 — `ucg test` reports a file as passing exactly when all its assertions hold.

Histories of test files through one invocation's shared assertion collector and import
value cache, checked against a model that knows every generated file's assertions by
construction (DESIGN.md §3 C13)."""
import itertools
import os
import re

PROPERTY = "C13"
LEVEL = "exploration"
RULE = ("generated *_test.ucg files (0-8 items: true/false asserts in literal, computed, via-function and std/testing forms; asserts on "
        "imported library flags; malformed asserts made opaque to the static checker; statically malformed asserts; runtime / type / syntax / "
        "missing-import errors after j assertions; unreadable or non-UTF-8 files) plus 0-2 shared libraries that may carry asserts of their own; "
        "runs of 1-4 files in one invocation: argv permutations (all n! in thorough), a file listed twice, directory, -r and no-argument walks, "
        "and every file alone. A case = one invocation; distinct = distinct (mode, sequence of per-file kinds in test order); a file kind is "
        "(verdict class, has-false, has-malformed, error kind, imports-asserting-lib); non-trivial = >=2 files and >=1 non-passing file")

PROBES = ["failing_file_before_passing_file", "asserting_lib_imported_by_two_tests", "type_fail_path_seen", "dir_order_differs_from_argv_sorted",
          "build_error_after_assertions", "file_listed_twice", "nested_dir_failure_only", "failing_lib_assert_shared", "assert_in_module_body",
          "unlistable_directory_in_walk", "symlinked_test_file", "directory_with_only_subdirectories", "same_spelling_different_helpers", "stdout_reader_gone", "library_with_out_statement", "empty_description", "report_over_64k"]
FAULT_KINDS = ["nonutf8_test_file", "dangling_test_file", "missing_library", "unlistable_directory", "stdout_closed"]
TIERS = {
    "quick": {"runs": 420, "wall_cap": 200},
    "thorough": {"runs": 9000, "wall_cap": 3300, "reexecute": 80},
}

ASSERT_FORMS = ["literal", "computed", "via_func", "std_ok", "std_not_ok", "std_equal", "multiline_desc"]
MALFORMED = ["nontuple", "ok_int", "desc_int", "no_ok", "no_desc", "ok_string", "both_bad", "neither_field", "empty_list"]
ERRORS = ["fail", "missing_import", "type", "syntax", "runtime_opaque", "static_malformed", "div_zero", "format_too_few_args"]


def generate(rng, tier, idx):
    nlibs = rng.weighted([(0, 3), (1, 4), (2, 3)])
    libs = []
    for i in range(nlibs):
        lib = {"name": "lib%d.ucg" % i, "dir": rng.choice(["", "libs"]), "flag": rng.chance(75), "asserts": [], "imports": [],
               # a library may have an out statement of its own (its artifact is its own business)
               "has_out": rng.chance(25)}
        for k in range(rng.weighted([(0, 4), (1, 3), (2, 2)])):
            lib["asserts"].append({"uid": "L%d%d%s" % (i, k, rng.token(5)), "ok": rng.chance(65)})
        if i == 1 and rng.chance(40):
            lib["imports"].append(0)
        libs.append(lib)
    ntests = rng.weighted([(1, 1), (2, 4), (3, 4), (4, 3)])
    tests = []
    profile = rng.weighted([("mixed", 5), ("mostly_pass", 3), ("one_bad", 3)])
    bad_one = rng.below(ntests)
    for i in range(ntests):
        # "nested/only_dirs/inner": the directory in between holds nothing but a sub-directory
        t = {"name": "t%d_test.ucg" % i, "dir": rng.weighted([("", 6), ("nested", 3), ("nested/only_dirs/inner", 1)]), "items": [], "imports": [], "fault": None}
        for li in range(nlibs):
            if rng.chance(60):
                t["imports"].append(li)
        nitems = rng.between(0, 8)
        p_bad = {"mixed": 30, "mostly_pass": 8, "one_bad": (60 if i == bad_one else 0)}[profile]
        for k in range(nitems):
            uid = "T%d%d%s" % (i, k, rng.token(5))
            if rng.chance(p_bad):
                kind = rng.weighted([("false", 5), ("malformed", 4), ("error", 3)])
            else:
                kind = "true"
            if kind in ("true", "false") and rng.chance(12):
                # one assert *statement* inside a module body, evaluated once per instantiation with different outcomes
                outcomes = [rng.chance(70) for _ in range(rng.between(2, 3))]
                if kind == "false" and all(outcomes):
                    outcomes[rng.below(len(outcomes))] = False
                if kind == "true":
                    outcomes = [True] * len(outcomes)
                t["items"].append({"k": "module_assert", "uid": uid, "outcomes": outcomes})
                continue
            if kind in ("true", "false"):
                if t["imports"] and rng.chance(25):
                    li = rng.choice(t["imports"])
                    # the assertion's truth is the library's flag, possibly negated
                    neg = (libs[li]["flag"] != (kind == "true"))
                    t["items"].append({"k": "assert_lib", "uid": uid, "lib": li, "neg": neg, "ok": kind == "true"})
                else:
                    t["items"].append({"k": "assert", "uid": uid, "ok": kind == "true", "form": rng.choice(ASSERT_FORMS)})
            elif kind == "malformed":
                t["items"].append({"k": "malformed", "uid": uid, "form": rng.choice(MALFORMED)})
            else:
                t["items"].append({"k": "error", "uid": uid, "form": rng.choice(ERRORS)})
        if rng.chance(10):
            t["empty_desc"] = True       # a well-formed true assertion whose description is the empty string
        if rng.chance(5):
            t["bulk"] = True             # more than 64 KiB of passing report before anything else
        if rng.chance(6):
            t["fault"] = rng.choice(["nonutf8_test_file", "dangling_test_file"])
        elif rng.chance(8):
            t["symlinked"] = True      # a healthy test file that is a symbolic link to a file kept elsewhere
        tests.append(t)
    world = {"libs": libs, "tests": tests, "strict": not rng.chance(10), "missing_lib": None,
             "creation": rng.shuffle(list(range(ntests))),
             # every directory that holds tests has its own `helper.ucg`, imported by its tests under the same spelling "./helper.ucg";
             # the helpers differ in the type of what they export
             "helpers": rng.chance(30)}
    if world["helpers"]:
        for t in tests:
            t["uses_helper"] = rng.chance(70)
    if nlibs and rng.chance(6):
        world["missing_lib"] = rng.below(nlibs)
    n = ntests
    scheds = [{"mode": "files", "order": [i]} for i in range(n)]
    perms = list(itertools.permutations(range(n)))
    if n > 1:
        if tier == "thorough" or len(perms) <= 6:
            chosen = perms
        else:
            chosen = rng.sample(perms, 6)
        for order in chosen:
            scheds.append({"mode": "files", "order": list(order)})
    if rng.chance(40):
        o = rng.shuffle(list(range(n)))[:rng.between(1, min(2, n))]
        scheds.append({"mode": "files", "order": o + [o[0]], "twice": True})
    scheds.append({"mode": rng.choice(["dir", "dir_r", "noargs", "noargs_r", "dir_r_abs"])})
    if rng.chance(10) and n > 0:
        # the reader of standard output has gone away: nothing can be reported, but a failing file must still fail the run
        scheds.append({"mode": "files", "order": rng.shuffle(list(range(n))), "stdout_closed": True})
    if rng.chance(12):
        # a recursive walk that runs out of file descriptors somewhere below (a chain of empty directories deeper than the limit allows):
        # listing that sub-directory fails; the files that can be reached keep their verdicts and a failing file still fails the run
        scheds.append({"mode": rng.choice(["dir_r", "noargs_r"]), "nofile": rng.between(9, 12), "chain": 16})
    for sc in scheds:
        if sc["mode"] == "files":
            sc["abs"] = rng.chance(12)
    world["schedules"] = scheds
    return world


def lib_path(lib):
    return (lib["dir"] + "/" if lib["dir"] else "") + lib["name"]


def test_path(t):
    return (t["dir"] + "/" if t["dir"] else "") + t["name"]


def render_lib(world, li):
    lib = world["libs"][li]
    L = ["let flag = %s;" % ("true" if lib["flag"] else "false")]
    for k, j in enumerate(lib["imports"]):
        other = world["libs"][j]
        L.append('let dep%d = import "%s";' % (k, os.path.relpath(lib_path(other), lib["dir"] or ".")))
    for a in lib["asserts"]:
        L.append('assert {ok = %s, desc = "%s"};' % ("true" if a["ok"] else "false", a["uid"]))
    if lib.get("has_out"):
        L.append("out json {flag = flag};")
    return "\n".join(L) + "\n"


def render_test(world, ti):
    t = world["tests"][ti]
    L = ["let idf = func (x) => x;", 'let tst = import "std/testing.ucg";']
    for li in t["imports"]:
        lib = world["libs"][li]
        rel = os.path.relpath(lib_path(lib), t["dir"] or ".")
        if not rel.startswith("."):
            rel = "./" + rel
        L.append('let l%d = import "%s";' % (li, rel))
    if t.get("bulk"):
        for k in range(8):
            L.append('assert {ok = true, desc = "bulk%d%s-%s"};' % (k, t["name"][:2], "x" * 9000))
    if t.get("empty_desc"):
        L.append('assert {ok = true, desc = ""};')
    if world.get("helpers") and t.get("uses_helper"):
        kind = helper_kind(t["dir"])
        L.append('let hlp = import "./helper.ucg";')
        L.append("let hlp_used = hlp.val + %s;" % ("1" if kind == "int" else '"s"'))
    for it in t["items"]:
        u = it["uid"]
        if it["k"] == "assert":
            ok = it["ok"]
            b = "true" if ok else "false"
            form = it["form"]
            if form == "literal":
                L.append('assert {ok = %s, desc = "%s"};' % (b, u))
            elif form == "computed":
                L.append('assert {ok = 1 + 1 == %d, desc = "%s"};' % (2 if ok else 3, u))
            elif form == "via_func":
                L.append('assert {ok = idf(%s), desc = idf("%s")};' % (b, u))
            elif form == "multiline_desc":
                L.append('assert {ok = %s, desc = "%s\\nsecond line of the description"};' % (b, u))
            elif form == "std_ok":
                L.append('assert tst.ok{test = %s, desc = "%s"};' % (b, u))
            elif form == "std_not_ok":
                L.append('assert tst.not_ok{test = %s, desc = "%s"};' % ("false" if ok else "true", u))
            elif form == "std_equal":
                L.append('assert tst.equal{left = 1, right = %d, desc = "%s"};' % (1 if ok else 2, u))
        elif it["k"] == "assert_lib":
            e = "l%d.flag" % it["lib"]
            if it["neg"]:
                e = "not " + e
            L.append('assert {ok = %s, desc = "%s"};' % (e, u))
        elif it["k"] == "module_assert":
            L.append('let chk%s = module {v = true, tag = "x"} => { assert {ok = mod.v, desc = "%s-" + mod.tag}; };' % (u, u))
            for n_, ok in enumerate(it["outcomes"]):
                L.append('let inst%s_%d = chk%s{v = %s, tag = "i%d"};' % (u, n_, u, "true" if ok else "false", n_))
        elif it["k"] == "malformed":
            form = it["form"]
            if form == "nontuple":
                L.append('assert idf("%s");' % u)
            elif form == "ok_int":
                L.append('assert {ok = idf(1), desc = "%s"};' % u)
            elif form == "ok_string":
                L.append('assert {ok = idf("true"), desc = "%s"};' % u)
            elif form == "desc_int":
                L.append('assert {ok = true, desc = idf(5), tag = "%s"};' % u)
            elif form == "no_ok":
                L.append('assert idf({desc = "%s"});' % u)
            elif form == "no_desc":
                L.append('assert idf({ok = true, tag = "%s"});' % u)
            elif form == "both_bad":      # wrong in both fields at once: still one assertion, one log entry
                L.append('assert idf({ok = 1, desc = 2, tag = "%s"});' % u)
            elif form == "neither_field":
                L.append('assert idf({tag = "%s"});' % u)
            elif form == "empty_list":
                L.append('assert idf(["%s"]);' % u)
        elif it["k"] == "error":
            form = it["form"]
            if form == "fail":
                L.append('let e%s = fail "boom-%s";' % (u, u))
            elif form == "missing_import":
                L.append('let e%s = import "./no-such-%s.ucg";' % (u, u))
            elif form == "type":
                L.append('let e%s = 1 + "a";' % u)
            elif form == "syntax":
                L.append("let e%s = ;" % u)
            elif form == "runtime_opaque":
                L.append('let e%s = idf(1) + idf("a");' % u)
            elif form == "div_zero":
                L.append("let e%s = 10 / idf(0);" % u)
            elif form == "format_too_few_args":
                L.append('let e%s = "@ and @" %% (1);' % u)
            elif form == "static_malformed":
                L.append('assert {ok = 1, desc = "%s"};' % u)
    return "\n".join(L) + "\n"


def helper_kind(d):
    return "int" if d == "" else ("str" if d == "nested" else "int")


def helper_text(d):
    return "let val = 7;\n" if helper_kind(d) == "int" else 'let val = "seven";\n'


def render(world):
    out = {"libs": {lib_path(l): render_lib(world, i) for i, l in enumerate(world["libs"])},
           "tests": {test_path(t): render_test(world, i) for i, t in enumerate(world["tests"])},
           "schedules": world["schedules"], "strict": world["strict"], "missing_lib": world["missing_lib"]}
    return out


# ---- model ---------------------------------------------------------------------
def lib_closure(world, li, seen=None):
    seen = seen if seen is not None else []
    if li not in seen:
        seen.append(li)
        for j in world["libs"][li]["imports"]:
            lib_closure(world, j, seen)
    return seen


def model(world, ti):
    """-> dict(builds, verdict 'PASS'/'FAIL', ok_tokens, notok_tokens (each exactly once when builds), evaluated_before_error)"""
    t = world["tests"][ti]
    m = {"builds": True, "ok": [], "notok": [], "err": None}
    if t["fault"]:
        m["builds"] = False
        m["err"] = t["fault"]
    libs = []
    for li in t["imports"]:
        for j in lib_closure(world, li):
            if j not in libs:
                libs.append(j)
    if world["missing_lib"] is not None and world["missing_lib"] in libs:
        m["builds"] = False
        m["err"] = "missing_library"
    for j in libs:
        for a in world["libs"][j]["asserts"]:
            (m["ok"] if a["ok"] else m["notok"]).append(a["uid"])
    for it in t["items"]:
        if it["k"] == "module_assert":
            for n_, ok in enumerate(it["outcomes"]):
                (m["ok"] if ok else m["notok"]).append("%s-i%d" % (it["uid"], n_))
        elif it["k"] in ("assert", "assert_lib"):
            (m["ok"] if it["ok"] else m["notok"]).append(it["uid"])
        elif it["k"] == "malformed":
            m["notok"].append(it["uid"])
        elif it["k"] == "error":
            m["builds"] = False
            m["err"] = m["err"] or it["form"]
    m["verdict"] = "PASS" if (m["builds"] and not m["notok"]) else "FAIL"
    m["libs"] = libs
    return m


def file_kind(world, ti, m):
    t = world["tests"][ti]
    return [m["verdict"], any((i["k"] in ("assert", "assert_lib") and not i["ok"]) or (i["k"] == "module_assert" and not all(i["outcomes"])) for i in t["items"]),
            any(i["k"] == "malformed" for i in t["items"]), m["err"],
            any(world["libs"][j]["asserts"] for j in m["libs"])]


# ---- history parsing -------------------------------------------------------------
_VALID = re.compile(r"^Validating (.+)$")
_ALINE = re.compile(r"^(\d+) - (OK|NOT OK): (.*)$")
_FILE = re.compile(r"^File (.+) (Pass|Fail)$")
_SUMM = re.compile(r"^(.+) - (PASS|FAIL)$")


def parse(out):
    """-> (segments, summaries).  segment: {path, lines, asserts:[(status, text incl. continuation lines)], verdict, err}"""
    segs = []
    summaries = []
    cur = None
    in_results = False
    last_assert = None
    for line in out.split("\n"):
        m = _VALID.match(line)
        if m:
            cur = {"path": m.group(1), "asserts": [], "verdict": None, "verdicts": 0, "err": False, "lines": []}
            segs.append(cur)
            in_results = False
            last_assert = None
            continue
        if line == "RESULTS:":
            in_results = True
            last_assert = None
            continue
        if in_results:
            m = _SUMM.match(line)
            if m:
                summaries.append((m.group(1), m.group(2)))
                continue
            if line.strip() == "":
                continue
            in_results = False
        if cur is None:
            continue
        cur["lines"].append(line)
        m = _ALINE.match(line)
        if m:
            last_assert = [m.group(2), m.group(3)]
            cur["asserts"].append(last_assert)
            continue
        m = _FILE.match(line)
        if m:
            cur["verdict"] = m.group(2).upper()
            cur["verdicts"] += 1
            last_assert = None
            continue
        if line.startswith("Err: "):
            cur["err"] = True
            last_assert = None
            continue
        if last_assert is not None and line.strip():
            last_assert[1] += "\n" + line
    return segs, summaries


def to_index(world, printed):
    p = printed
    if p.startswith("<W>/proj"):
        p = p[len("<W>/proj"):].lstrip("/")
    p = os.path.normpath(p)
    for i, t in enumerate(world["tests"]):
        if test_path(t) == p:
            return i
    return None


def execute(world, sb, res):
    tests = world["tests"]
    n = len(tests)
    flags = [] if world["strict"] else ["--no-strict"]
    models = [model(world, i) for i in range(n)]
    all_tokens = {}
    for i, t in enumerate(tests):
        for it in t["items"]:
            if it["k"] == "module_assert":
                for n_ in range(len(it["outcomes"])):
                    all_tokens["%s-i%d" % (it["uid"], n_)] = ("test", i)
                res.probe("assert_in_module_body")
            elif it["k"] != "error":
                all_tokens[it["uid"]] = ("test", i)
    for j, lib in enumerate(world["libs"]):
        for a in lib["asserts"]:
            all_tokens[a["uid"]] = ("lib", j)
    lib_importers = {}
    for i in range(n):
        for j in models[i]["libs"]:
            lib_importers.setdefault(j, set()).add(i)
    alone_verdict = {}

    for k, sc in enumerate(world["schedules"]):
        base = "w%d" % k
        proj = base + "/proj"
        sb.mkdir(proj)
        for j, lib in enumerate(world["libs"]):
            if world["missing_lib"] == j:
                continue
            sb.write(proj + "/" + lib_path(lib), render_lib(world, j))
        if world.get("helpers"):
            for d in sorted(set(t["dir"] for t in tests)):
                sb.write(proj + "/" + (d + "/" if d else "") + "helper.ucg", helper_text(d))
            res.probe("same_spelling_different_helpers")
        for i in world["creation"]:
            t = tests[i]
            if t["fault"] == "nonutf8_test_file":
                sb.write(proj + "/" + test_path(t), b"assert {ok = true, desc = \"\xff\xfe\"};\n")
            elif t["fault"] == "dangling_test_file":
                sb.symlink(proj + "/" + test_path(t), "/nonexistent/ucgsim_test.ucg")
            elif t.get("symlinked"):
                # the link's own directory decides where relative imports point, so the text is what it would be in place
                sb.write(base + "/store/real_%d.txt" % i, render_test(world, i))
                sb.symlink(proj + "/" + test_path(t), sb.p(base + "/store/real_%d.txt" % i))
                res.probe("symlinked_test_file")
            else:
                sb.write(proj + "/" + test_path(t), render_test(world, i))
        mode = sc["mode"]
        if mode == "files":
            args = [(sb.p(proj) + "/" if sc.get("abs") else "") + test_path(tests[i]) for i in sc["order"]]
            argv = flags + ["test"] + args
        elif mode == "dir":
            argv = flags + ["test", "."]
        elif mode == "dir_r":
            argv = flags + ["test", "-r", "."]
        elif mode == "dir_r_abs":
            argv = flags + ["test", "-r", sb.p(proj)]
        elif mode == "noargs":
            argv = flags + ["test"]
        elif mode == "noargs_r":
            argv = flags + ["test", "-r"]
        else:
            raise ValueError(mode)
        nofile = sc.get("nofile")
        if nofile:
            sb.mkdir(proj + "/zz_deep/" + "/".join("d%d" % k for k in range(sc["chain"])))
            res.probe("unlistable_directory_in_walk")
        if sc.get("stdout_closed"):
            inv = sb.invoke(argv, cwd=proj, stdout_closed=True)
            res.probe("stdout_reader_gone")
            if "Broken pipe" in inv.out:
                res.fault("stdout_closed")
            res.history.append({"argv": [a.replace(sb.root + "/" + base, "<W>") for a in argv], "status": inv.status, "stdout": "closed"})
            want_fail = any(models[i]["verdict"] == "FAIL" for i in sc["order"])
            if inv.timed_out:
                res.violate("C13.terminates", "stdout-closed", "ucg test did not terminate with its standard output closed")
            elif want_fail and inv.status == 0:
                res.violate("C13.exit-status", "zero-with-failure-stdout-closed", "exit status 0 with standard output closed although %s fail(s)\nstderr: %s" % (
                    [test_path(tests[i]) for i in sc["order"] if models[i]["verdict"] == "FAIL"], inv.out[-600:].replace(sb.root + "/" + base, "<W>")))
            continue
        inv = sb.invoke(argv, cwd=proj, nofile=nofile)
        if nofile and "Too many open files" in inv.out:
            res.fault("unlistable_directory")
        out = inv.out.replace("<ROOT>/" + base, "<W>")
        shown = [a.replace(sb.root + "/" + base, "<W>") for a in argv]
        if inv.timed_out:
            res.violate("C13.terminates", mode, "ucg test did not terminate: %s" % shown)
            return
        segs, summaries = parse(out)
        order = []
        for s in segs:
            i = to_index(world, s["path"])
            if i is None:
                res.harness_error = "cannot map %r to a test file" % s["path"]
                return
            order.append(i)
        res.history.append({"argv": shown, "status": inv.status, "signal": inv.signal, "order": order, "out": out})
        # every file handed to `ucg test` gets a verdict: argv order for explicit files, the walked set for directories
        if mode == "files":
            want_order = list(sc["order"])
            if order != want_order:
                missing = [test_path(tests[i]) for i in want_order if order.count(i) < want_order.count(i)]
                res.violate("C13.no-verdict", "files", "files given on the command line: %s; files actually validated, in order: %s (no verdict for %s)\n%s" % (
                    [test_path(tests[i]) for i in want_order], [test_path(tests[i]) for i in order], missing,
                    "argv: %s\n--- exit=%s\n%s" % (" ".join(shown), inv.status, out[-2000:])))
        else:
            recursive = mode in ("dir_r", "noargs_r", "dir_r_abs")
            want_set = sorted(i for i in range(n) if recursive or not tests[i]["dir"])
            if sorted(order) != want_set:
                res.violate("C13.no-verdict", "walk", "directory walk (%s) should validate %s but validated %s\n%s" % (
                    mode, [test_path(tests[i]) for i in want_set], [test_path(tests[i]) for i in order],
                    "argv: %s\n--- exit=%s\n%s" % (" ".join(shown), inv.status, out[-2000:])))
        if mode != "files":
            exp = sorted(range(n), key=lambda i: test_path(tests[i]))
            if order != [i for i in exp if i in order]:
                res.probe("dir_order_differs_from_argv_sorted")
        if sc.get("twice"):
            res.probe("file_listed_twice")
        ctx = "argv: %s (cwd <W>/proj)\n--- exit=%s signal=%s\n%s" % (" ".join(shown), inv.status, inv.signal, out[-2500:])
        if "TYPE FAIL" in out:
            res.probe("type_fail_path_seen")
        if any(l.get("has_out") for l in world["libs"]):
            res.probe("library_with_out_statement")
        if any(t.get("empty_desc") for t in tests):
            res.probe("empty_description")
        if any(t.get("bulk") for t in tests):
            res.probe("report_over_64k")
        if mode in ("dir_r", "noargs_r", "dir_r_abs") and any(t["dir"].startswith("nested/only_dirs") for t in tests):
            res.probe("directory_with_only_subdirectories")
        for j, lib in enumerate(world["libs"]):
            if lib["asserts"] and len(lib_importers.get(j, ())) >= 2 and len([i for i in set(order) if i in lib_importers[j]]) >= 2:
                res.probe("asserting_lib_imported_by_two_tests")
                if any(not a["ok"] for a in lib["asserts"]):
                    res.probe("failing_lib_assert_shared")
        seen = []
        for pos, (s, i) in enumerate(zip(segs, order)):
            m = models[i]
            t = tests[i]
            kind_earlier = sorted(set(models[j]["verdict"] + ("-builderr" if not models[j]["builds"] else "") for j in seen)) or ["none"]
            # (a) verdict
            if m["builds"]:
                got = s["verdict"]
                if s["err"] or got is None:
                    res.violate("C13.verdict-model", "build-error-on-buildable", "%s should build (model) but the run reports a build error / no verdict\n%s" % (test_path(t), ctx))
                else:
                    if s["verdicts"] != 1:
                        res.violate("C13.verdict-line", "count", "%s has %d verdict lines\n%s" % (test_path(t), s["verdicts"], ctx))
                    if got != m["verdict"]:
                        single = (len(order) == 1)
                        if single or alone_verdict.get(i, m["verdict"]) != m["verdict"]:
                            res.violate("C13.verdict-model", "%s-reported-%s" % (m["verdict"], got),
                                        "%s: model verdict %s (false/malformed assertions: %s) but reported %s\n%s" % (
                                            test_path(t), m["verdict"], m["notok"], got, ctx))
                        else:
                            res.violate("C13.verdict-order", "inherited-failure" if got == "FAIL" else "lost-failure",
                                        "%s is %s by its own assertions (and alone) but reported %s after %s\n%s" % (
                                            test_path(t), m["verdict"], got, [test_path(tests[j]) for j in seen], ctx))
                    if len(order) == 1:
                        alone_verdict[i] = got
            else:
                if s["verdict"] == "PASS":
                    res.violate("C13.verdict-model", "FAIL-reported-PASS", "%s cannot build (%s) but is reported Pass\n%s" % (test_path(t), m["err"], ctx))
                if len(order) == 1:
                    alone_verdict[i] = "FAIL"
                if m["err"] in ("fail", "runtime_opaque", "missing_import", "div_zero") and (m["ok"] or m["notok"]):
                    res.probe("build_error_after_assertions")
                if m["err"] == "nonutf8_test_file" and "valid UTF-8" in "\n".join(s["lines"]):
                    res.fault("nonutf8_test_file")
                if m["err"] == "dangling_test_file" and "No such file" in "\n".join(s["lines"]):
                    res.fault("dangling_test_file")
                if m["err"] == "missing_library" and s["err"]:
                    res.fault("missing_library")
            # (d) log: each token of this file exactly once (at most once when it does not build), no foreign tokens
            text_by_tok = {}
            for status, text in s["asserts"]:
                for tok in all_tokens:
                    if tok in text:
                        text_by_tok.setdefault(tok, []).append(status)
            mine = set(m["ok"]) | set(m["notok"])
            for tok, sts in sorted(text_by_tok.items()):
                if tok not in mine:
                    res.violate("C13.log-once", "foreign", "the log of %s contains assertion %s which belongs to %s %d\n%s" % (
                        test_path(t), tok, all_tokens[tok][0], all_tokens[tok][1], ctx))
                    break
                if len(sts) > 1:
                    res.violate("C13.log-once", "dup", "assertion %s appears %d times in the log of %s\n%s" % (tok, len(sts), test_path(t), ctx))
                    break
            if m["builds"] and not s["err"]:
                for tok in sorted(mine):
                    if tok not in text_by_tok:
                        res.violate("C13.log-once", "missing", "assertion %s was evaluated in %s but is not in its log\n%s" % (tok, test_path(t), ctx))
                        break
                    want = "OK" if tok in m["ok"] else "NOT OK"
                    if text_by_tok[tok][0] != want:
                        res.violate("C13.log-status", want.replace(" ", "-"), "assertion %s of %s should be logged %s but is %s\n%s" % (
                            tok, test_path(t), want, text_by_tok[tok][0], ctx))
                        break
            if seen and m["verdict"] == "PASS" and any(models[j]["verdict"] == "FAIL" for j in seen):
                res.probe("failing_file_before_passing_file")
            seen.append(i)
        # (b) summary lines
        summ = {}
        for p, v in summaries:
            i = to_index(world, p)
            if i is not None:
                summ.setdefault(i, []).append(v)
        for i in set(order):
            want = models[i]["verdict"]
            got = summ.get(i, [])
            if len(got) != order.count(i):
                res.violate("C13.summary", "count", "%s occurs %d times in the run but %d times under RESULTS\n%s" % (test_path(tests[i]), order.count(i), len(got), ctx))
            elif any(g != want for g in got):
                # attribute to order when the per-file line was already wrong the same way; keep one class
                res.violate("C13.summary", "verdict", "RESULTS says %s for %s, model says %s\n%s" % (got, test_path(tests[i]), want, ctx))
        # (c) exit status
        want_fail = any(models[i]["verdict"] == "FAIL" for i in order)
        if nofile:
            # the listing error itself may (and does) make the run fail; what must not happen is a clean exit although a file failed
            if want_fail and inv.status == 0:
                res.violate("C13.exit-status", "zero-with-failure-under-listing-error", "exit status 0 although %s fail(s) (a sub-directory could not be listed)\n%s" % (
                    [test_path(tests[i]) for i in order if models[i]["verdict"] == "FAIL"], ctx))
        elif (inv.status != 0) != want_fail:
            nested_only = want_fail and all(models[i]["verdict"] == "PASS" or tests[i]["dir"] for i in order)
            res.violate("C13.exit-status", "nested-only" if nested_only else ("zero-with-failure" if want_fail else "nonzero-without-failure"),
                        "exit status %s but %s\n%s" % (inv.status, "some file fails: %s" % [test_path(tests[i]) for i in order if models[i]["verdict"] == "FAIL"] if want_fail else "every file passes", ctx))
        if want_fail and all(models[i]["verdict"] == "PASS" or tests[i]["dir"] for i in order) and mode in ("dir_r", "noargs_r", "dir_r_abs"):
            res.probe("nested_dir_failure_only")
        if inv.status not in (0, 1):
            res.metric("abnormal_exit")
        res.key([mode, bool(sc.get("twice")), [file_kind(world, i, models[i]) for i in order]],
                len(order) >= 2 and any(models[i]["verdict"] == "FAIL" for i in order))


def shrink_candidates(world):
    w = world
    tests = w["tests"]
    n = len(tests)
    if len(w["schedules"]) > 1:
        for i in range(len(w["schedules"])):
            yield dict(w, schedules=[w["schedules"][i]])
    if n > 1:
        for d in range(n):
            def ri(j):
                return j if j < d else j - 1
            ns = []
            for sc in w["schedules"]:
                if sc["mode"] == "files":
                    o = [ri(i) for i in sc["order"] if i != d]
                    if o:
                        ns.append(dict(sc, order=o))
                else:
                    ns.append(sc)
            if ns:
                nt = [dict(t, name="t%d_test.ucg" % k) for k, t in enumerate(tests[:d] + tests[d + 1:])]
                yield dict(w, tests=nt, schedules=ns, creation=[ri(i) for i in w["creation"] if i != d])
    for k, sc in enumerate(w["schedules"]):
        if sc["mode"] == "files" and len(sc["order"]) > 1:
            for i in range(len(sc["order"])):
                yield dict(w, schedules=w["schedules"][:k] + [dict(sc, order=sc["order"][:i] + sc["order"][i + 1:])] + w["schedules"][k + 1:])
        if sc.get("abs"):
            yield dict(w, schedules=w["schedules"][:k] + [dict(sc, abs=False)] + w["schedules"][k + 1:])
    for i, t in enumerate(tests):
        for k in range(len(t["items"])):
            yield dict(w, tests=tests[:i] + [dict(t, items=t["items"][:k] + t["items"][k + 1:])] + tests[i + 1:])
        for li in t["imports"]:
            if not any(it["k"] == "assert_lib" and it["lib"] == li for it in t["items"]):
                yield dict(w, tests=tests[:i] + [dict(t, imports=[x for x in t["imports"] if x != li])] + tests[i + 1:])
        if t["dir"]:
            yield dict(w, tests=tests[:i] + [dict(t, dir="")] + tests[i + 1:])
        if t["fault"]:
            yield dict(w, tests=tests[:i] + [dict(t, fault=None)] + tests[i + 1:])
        if t.get("symlinked"):
            yield dict(w, tests=tests[:i] + [dict(t, symlinked=False)] + tests[i + 1:])
        for k, it in enumerate(t["items"]):
            if it["k"] == "assert" and it["form"] != "literal":
                yield dict(w, tests=tests[:i] + [dict(t, items=t["items"][:k] + [dict(it, form="literal")] + t["items"][k + 1:])] + tests[i + 1:])
    for d in range(len(w["libs"])):
        used = any(d in t["imports"] for t in tests) or any(d in l["imports"] for l in w["libs"])
        if not used and w["missing_lib"] != d:
            def rl(j):
                return j if j < d else j - 1
            nl = [dict(l, imports=[rl(x) for x in l["imports"]], name="lib%d.ucg" % k) for k, l in enumerate(w["libs"][:d] + w["libs"][d + 1:])]
            nt = [dict(t, imports=[rl(x) for x in t["imports"]],
                       items=[dict(it, lib=rl(it["lib"])) if it["k"] == "assert_lib" else it for it in t["items"]]) for t in tests]
            yield dict(w, libs=nl, tests=nt, missing_lib=None if w["missing_lib"] is None else rl(w["missing_lib"]))
    for j, lib in enumerate(w["libs"]):
        for k in range(len(lib["asserts"])):
            yield dict(w, libs=w["libs"][:j] + [dict(lib, asserts=lib["asserts"][:k] + lib["asserts"][k + 1:])] + w["libs"][j + 1:])
        if lib["imports"]:
            yield dict(w, libs=w["libs"][:j] + [dict(lib, imports=[])] + w["libs"][j + 1:])
    if w["missing_lib"] is not None:
        yield dict(w, missing_lib=None)
    if not w["strict"]:
        yield dict(w, strict=True)
    if w["creation"] != sorted(w["creation"]):
        yield dict(w, creation=sorted(w["creation"]))


ASSUMPTIONS = [
    "verdicts are predicted only for generated constructs whose outcome is fixed by construction; assertion numbering is not constrained",
    "assertions of an imported library count as evaluated in every test file that imports it (they are recorded in that file's log when it is tested alone)",
    "for a file that fails to build, 'exactly once' is relaxed to 'at most once': its log is never printed",
]
