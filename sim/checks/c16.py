"""C16 — a file builds the same alone, in any batch, in any order, any number of times.

Metamorphic refinement: the reference is the real binary building one file alone in a
fresh process on a pristine copy of the tree; every batch schedule (argv permutations,
duplicates, directory walks, repeated invocation over the artifact-laden tree) must give
each file the same success/failure and the same artifact bytes (DESIGN.md §3 C16)."""
import itertools
import os
import re

PROPERTY = "C16"
LEVEL = "exploration"
RULE = ("generated projects of 2-6 .ucg files over 1-3 directories (entries with out, libraries, dual-role files that are built and "
        "imported, failing files, same-basename pairs, re-spelled import paths, std imports, disk faults planted on one artifact); "
        "each world: every file alone in a fresh process on a pristine copy, then batches (argv permutations: all for n<=4 in thorough, "
        "sampled otherwise; duplicates; -r and no-argument directory walks) each run twice in place. A case = one batch schedule; "
        "distinct = distinct (sequence of (role, fail kind, out converter, imports-as-role-list) in build order, mode, repeat); "
        "non-trivial = the batch has >=2 files sharing an import, or a dual-role file, or a failing file next to a succeeding one")

EXT = {"json": "json", "yaml": "yaml", "toml": "toml", "env": "env", "flags": "txt", "xml": "xml", "yamlmulti": "yaml"}
FAULT_KINDS = ["eisdir", "enospc", "efbig", "nonutf8_source", "dangling_source"]
PROBES = ["dual_built_before_importer", "dual_built_after_importer", "shared_lib_two_entries", "failing_first", "failing_middle",
          "failing_last", "same_basename_pair", "second_run_over_artifacts", "listed_twice", "dir_walk_order_differs_from_sorted",
          "respelled_argument", "failing_lib_imported", "directory_and_files_mixed", "symlinked_template_pair", "shared_data_included_under_two_types", "library_imports_its_sibling_by_name", "false_assert_in_imported_file"]
TIERS = {
    "quick": {"runs": 230, "wall_cap": 210},
    "thorough": {"runs": 3500, "wall_cap": 3300, "reexecute": 60},
}
FAILS = ["syntax", "type", "runtime", "runtime_opaque", "convert", "missing_import", "post_out", "lazy_missing_import", "lazy_broken_import",
         "strict_only_field", "strict_only_env", "convert_late_xml", "convert_late_yamlmulti", "div_zero", "mod_zero", "format_too_few_args", "type_static_only", "deep_recursion_fails"]
SPELL = ["plain", "dot", "dotdot", "redundant", "abs", "backslash"]


def generate(rng, tier, idx):
    ndirs = rng.between(1, 3)
    dirs = ["", "a", "b"][:ndirs] if rng.chance(70) else ["", "a", "a/deep"][:ndirs]
    n = rng.between(2, 6)
    files = []
    names_used = set()
    # roles: make sure interesting constellations are common
    role_w = [("entry", 5), ("lib", 4), ("dual", 4), ("failing", 2)]
    for i in range(n):
        role = rng.weighted(role_w)
        d = rng.choice(dirs)
        base = rng.choice(["lib", "main", "svc", "conf", "x"]) if rng.chance(60) else "f%d" % i
        path = (d + "/" if d else "") + base + ".ucg"
        while path in names_used:
            base = base + str(i)
            path = (d + "/" if d else "") + base + ".ucg"
        names_used.add(path)
        f = {"path": path, "role": role, "uid": "u%d%s" % (i, rng.token(5)), "shape": rng.choice(["int", "str"]),
             "out": None, "imports": [], "std": rng.chance(25), "fail": None,
             # the project's one data file, included as text or decoded
             "include": rng.weighted([(None, 7), ("str", 1), ("json", 1), ("yaml", 1)]),
             # an assert statement: evaluated and recorded, but `ucg build` does not judge by it
             "asserts": rng.weighted([(None, 8), ("true", 1), ("false", 2)]),
             # a healthy but deep recursion through module instantiation
             "deep": rng.chance(10)}
        if role in ("entry", "dual"):
            f["out"] = rng.weighted([("json", 4), ("yaml", 3), ("toml", 2), ("env", 1), ("flags", 1)])
        if role == "failing":
            f["fail"] = rng.choice(FAILS)
            if rng.chance(50):
                f["out"] = rng.choice(["json", "yaml"])
        files.append(f)
    # imports only point to higher indices -> DAG
    for i, f in enumerate(files):
        cands = [j for j in range(i + 1, n) if files[j]["role"] in ("lib", "dual") or (files[j]["role"] == "failing" and rng.chance(30))]
        if f["role"] == "lib" and rng.chance(50):
            cands = []
        k = min(len(cands), rng.weighted([(0, 1), (1, 4), (2, 3), (3, 1)]))
        for j in rng.sample(cands, k):
            f["imports"].append({"target": j, "spelling": rng.weighted([("plain", 4), ("dot", 3), ("dotdot", 2), ("redundant", 1), ("abs", 1)])})
            if rng.chance(15):  # same file imported twice under another spelling
                f["imports"].append({"target": j, "spelling": rng.choice(SPELL)})
    if n >= 3 and len(dirs) >= 2 and rng.chance(25):
        # two libraries with the same base name and different shapes in different directories, both imported by the first file
        a, b = n - 1, n - 2
        d1, d2 = rng.sample(dirs, 2)
        for k, d in ((a, d1), (b, d2)):
            files[k]["path"] = (d + "/" if d else "") + "shared.ucg"
            if files[k]["role"] not in ("lib", "dual"):
                files[k]["role"], files[k]["fail"] = "lib", None
        files[a]["shape"], files[b]["shape"] = "int", "str"
        files[0]["imports"] = [imp for imp in files[0]["imports"] if imp["target"] not in (a, b)] + [
            {"target": a, "spelling": rng.choice(SPELL)}, {"target": b, "spelling": rng.choice(SPELL)}]
        if rng.chance(60):
            # ... and a library next to the first `shared.ucg` imports it as a sibling (bare let-import, plain spelling) and re-exports a typed
            # value; an entry living next to the *other* `shared.ucg` imports that library.  Anything resolved against the importer's
            # directory, or cached per name, mixes the two up - possibly only in one order of the batch.
            files.append({"path": (d1 + "/" if d1 else "") + "mid.ucg", "role": "lib", "uid": "mid" + rng.token(5), "shape": "int", "out": None,
                          "imports": [{"target": a, "spelling": "plain"}], "std": False, "fail": None, "reexport": True})
            mid_i = len(files) - 1
            files.append({"path": (d2 + "/" if d2 else "") + "uses_mid.ucg", "role": "entry", "uid": "um" + rng.token(5), "shape": "int", "out": "json",
                          "imports": [{"target": mid_i, "spelling": rng.choice(["plain", "dot", "dotdot"])}, {"target": b, "spelling": "plain"}],
                          "std": False, "fail": None})
            # a second importer of that library, living next to it: whoever gets there first fills the shared caches
            files.append({"path": (d1 + "/" if d1 else "") + "uses_mid_local.ucg", "role": "entry", "uid": "ul" + rng.token(5), "shape": "int", "out": "yaml",
                          "imports": [{"target": mid_i, "spelling": "plain"}], "std": False, "fail": None})
            n = len(files)
        if files[0]["role"] == "lib":
            files[0]["role"], files[0]["out"] = "entry", "json"
        if files[b]["imports"]:
            files[b]["imports"] = [imp for imp in files[b]["imports"] if imp["target"] != a]
    if len(dirs) >= 2 and rng.chance(12):
        # a shared template: the same entry file present in two directories, the second being a symbolic link to the first; each directory
        # has its own ./vals.ucg, so the two builds must differ although the template's bytes (and inode) are the same
        d1, d2 = rng.sample(dirs, 2)
        base = len(files)
        conv = rng.choice(["json", "yaml"])
        for d, shape in ((d1, "int"), (d2, "str")):
            files.append({"path": (d + "/" if d else "") + "vals.ucg", "role": "lib", "uid": "v%s%s" % (shape, rng.token(5)), "shape": shape,
                          "out": None, "imports": [], "std": False, "fail": None})
        files.append({"path": (d1 + "/" if d1 else "") + "tpl.ucg", "role": "entry", "uid": "tpl" + rng.token(5), "shape": "int", "out": conv,
                      "imports": [{"target": base, "spelling": "dot"}], "std": False, "fail": None, "untyped_use": True})
        files.append({"path": (d2 + "/" if d2 else "") + "tpl.ucg", "role": "entry", "uid": files[-1]["uid"], "shape": "int", "out": conv,
                      "imports": [{"target": base + 1, "spelling": "dot"}], "std": False, "fail": None, "untyped_use": True, "symlink_to": base + 2})
        n = len(files)
    if rng.chance(8):
        # a file that fails at the bottom of a deep module recursion, and a healthy file that recurses deeply itself: whatever the failure
        # leaves behind in the process (depth counters, stacks) must not make the healthy one fail
        files.append({"path": "deep_fail.ucg", "role": "failing", "uid": "df" + rng.token(5), "shape": "int", "out": "json", "imports": [], "std": False,
                      "fail": "deep_recursion_fails"})
        files.append({"path": "deep_ok.ucg", "role": "entry", "uid": "dk" + rng.token(5), "shape": "int", "out": "json", "imports": [], "std": False,
                      "fail": None, "deep": True})
        n = len(files)
    strict_world = not rng.chance(12)
    if not strict_world and rng.chance(60):
        # under --no-strict: a file that builds only because lookups are lenient, whichever way the invocation names its inputs
        files.append({"path": "needs_lenient.ucg", "role": "failing", "uid": "nl" + rng.token(5), "shape": "int", "out": "json", "imports": [], "std": False,
                      "fail": rng.choice(["strict_only_field", "strict_only_env"])})
        n = len(files)
    world = {"files": files, "strict": strict_world, "fault": None, "fsize": None, "creation": rng.shuffle(list(range(n)))}
    if rng.chance(25):
        outs = [i for i, f in enumerate(files) if f["out"]]
        kind = rng.choice(FAULT_KINDS)
        if kind in ("eisdir", "enospc") and outs:
            world["fault"] = {"kind": kind, "file": rng.choice(outs)}
        elif kind == "efbig" and outs:
            world["fsize"] = rng.choice([0, 1, 10, 25, 60])
        elif kind in ("nonutf8_source", "dangling_source"):
            world["fault"] = {"kind": kind, "file": rng.below(n)}
    # schedules
    scheds = []
    perms = list(itertools.permutations(range(n))) if n <= 4 else None
    want = (len(perms) if (perms and tier == "thorough") else (5 if tier == "quick" else 12))
    if perms and want >= len(perms):
        chosen = perms
    elif perms:
        chosen = rng.sample(perms, want)
    else:
        chosen = [tuple(rng.shuffle(list(range(n)))) for _ in range(want)]
    for order in chosen:
        # a schedule may build a subset (at least 2 files) so that imported-but-not-built files occur too
        order = list(order)
        if rng.chance(30) and n > 2:
            order = order[:rng.between(2, n)]
        scheds.append({"mode": "files", "order": order, "abs": rng.chance(15),
                       "spell": [rng.weighted([("plain", 6), ("dot", 2), ("dotdot", 1)]) for _ in order]})
    if rng.chance(50):
        o = rng.shuffle(list(range(n)))[:rng.between(1, min(3, n))]
        scheds.append({"mode": "files", "order": o + [o[0]], "abs": False, "spell": ["plain"] * (len(o) + 1), "twice": True})
    scheds.append({"mode": rng.choice(["dir_r", "noargs_r", "noargs", "dir_r_abs"])})
    subdirs = sorted(set(os.path.dirname(f["path"]) for f in files if "/" in f["path"]))
    if subdirs and rng.chance(40):
        # a directory and single files mixed in one argument list (a file may get built twice that way)
        o = rng.shuffle(list(range(n)))[:rng.between(1, min(3, n))]
        scheds.append({"mode": "mixed", "dir": rng.choice(subdirs).split("/")[0], "order": o, "dir_first": rng.chance(50), "recurse": rng.chance(50)})
    world["schedules"] = scheds
    return world


def spelled(world, frm, to, how, root_abs):
    """Import path text used in file `frm` for file `to`."""
    fd = os.path.dirname(frm["path"])
    rel = os.path.relpath(to["path"], fd or ".")
    if how == "plain":
        return rel
    if how == "dot":
        return "./" + rel
    if how == "dotdot":
        # go into an existing directory and back out; fall back to ./ when the target has no directory part
        td = os.path.dirname(rel)
        if td and not td.startswith(".."):
            first = td.split("/")[0]
            return first + "/../" + rel
        return "./" + rel
    if how == "redundant":
        return "././" + rel.replace("/", "/./")
    if how == "abs":
        return root_abs + "/" + to["path"]
    if how == "backslash":
        return rel.replace("/", "\\\\")      # Windows-style separators, escaped for the UCG string literal
    raise ValueError(how)


def render_file(world, i, root_abs):
    files = world["files"]
    f = files[i]
    L = ['let id = "%s";' % f["uid"]]
    if f.get("reexport") and f["imports"]:
        L.append("let n_placeholder = 0;")
    else:
        L.append("let n = 7;" if f["shape"] == "int" else 'let n = "seven";')
    L.append("let f = func (x) => x + id;")
    if f["std"]:
        L.append('let lists = import "std/lists.ucg";')
    deps = []
    calc = []
    for k, imp in enumerate(f["imports"]):
        t = files[imp["target"]]
        L.append('let i%d = import "%s";' % (k, spelled(world, f, t, imp["spelling"], root_abs)))
        deps.append("[i%d.id] + i%d.deps" % (k, k))
        if imp["spelling"] == "backslash" and "/" in os.path.relpath(t["path"], os.path.dirname(f["path"]) or ".") and t["shape"] == "int":
            # the static checker does not follow an import written with Windows-style separators, so this never-evaluated right-hand side
            # (an integer where a boolean belongs) is nobody's business - unless a shape cached for another spelling is applied to it
            L.append("let lenient%d = false && i%d.n;" % (k, k))
        if f.get("untyped_use"):
            calc.append("i%d.n" % k)
        else:
            calc.append(("i%d.n + 1" % k) if t["shape"] == "int" else ('i%d.n + "s"' % k))
        calc.append('i%d.f("p%d-")' % (k, k))
    if f.get("reexport") and f["imports"]:
        L.append("let n = i0.n + 100;")     # typed re-export of the sibling's value
    L.append("let deps = " + (" + ".join(deps) if deps else "[]") + ";")
    if f.get("asserts"):
        L.append('assert {ok = %s, desc = "assert-%s"};' % (f["asserts"], f["uid"]))
    if f.get("deep"):
        L.append("let climb = module {n = 0} => (r) { let r = select (mod.n > 0, 0) => { true = mod.this{n = mod.n - 1} + 1 }; };")
        L.append("let height = climb{n = 250};")
    inc = f.get("include")
    if inc:
        rel = os.path.relpath("shared_data.json", os.path.dirname(f["path"]) or ".")
        L.append('let inc = include %s "%s";' % (inc, rel))
        calc.append("inc")
    L.append("let calc = [" + ", ".join(calc) + "];")
    if f["std"]:
        L.append('let joined = lists.str_join{sep="-", list=deps};')
        L.append("let cnt = lists.len(deps);")
    fail = f["fail"]
    if fail == "syntax":
        L.append("let broken = ;")
    elif fail == "type":
        L.append('let broken = 1 + "a";')
    elif fail == "runtime":
        L.append('let broken = fail "boom-%s";' % f["uid"])
    elif fail == "runtime_opaque":
        L.append("let idf = func (x) => x;")
        L.append('let broken = idf(1) + idf("a");')
    elif fail == "missing_import":
        L.append('let broken = import "./does-not-exist-%s.ucg";' % f["uid"])
    elif fail == "deep_recursion_fails":
        L.append("let countdown = module {n = 0} => (r) { let r = select (mod.n > 0) => { true = mod.this{n = mod.n - 1} + 1 }; };")
        L.append("let broken = countdown{n = 300};")
    elif fail == "type_static_only":
        # only the static checker objects: the VM would concatenate the two lists without complaint
        L.append('let broken = [1, 2] + ["a"];')
    elif fail == "div_zero":
        L.append("let idf = func (x) => x;")
        L.append("let broken = 10 / idf(0);")
    elif fail == "mod_zero":
        L.append("let idf = func (x) => x;")
        L.append("let broken = 10 %% idf(0);")
    elif fail == "format_too_few_args":
        L.append('let broken = "@ and @" % (1);')
    elif fail == "strict_only_field":
        # fails only under strict lookups (the default); with --no-strict the missing field is NULL and the file builds
        L.append("let idf = func (x) => x;")
        L.append("let maybe_null = idf({present = 1}).absent;")
    elif fail == "strict_only_env":
        L.append("let maybe_unset = env.UCGSIM_UNSET_%s;" % f["uid"].upper())
    elif fail == "lazy_missing_import":
        # never evaluated: only the ahead-of-time link step of the build notices the missing file
        L.append('let never_called = func (x) => (import "./does-not-exist-%s.ucg").id;' % f["uid"])
    elif fail == "lazy_broken_import":
        L.append('let maybe = select ("a", "dflt") => { a = "taken", b = (import "./broken-%s.ucg").id };' % f["uid"])
    if fail == "convert_late_xml":
        L.append('out xml {root = {name = "r", attrs = {id = id}, children = [{name = "ok"}, {name = "ok2", children = [{name = "deep"}]}, 1]}};')
    elif fail == "convert_late_yamlmulti":
        L.append("constraint pr = in 1..10;")
        L.append("out yamlmulti [{id = id}, {deps = deps}, pr];")
    elif f["out"]:
        if fail == "convert":
            L.append("out toml {id = id, bad = NULL};")
        else:
            conv = f["out"]
            if conv in ("json", "yaml", "toml"):
                extra = ", joined = joined, cnt = cnt" if f["std"] else ""
                L.append("out %s {id = id, deps = deps, calc = calc%s};" % (conv, extra))
            elif conv == "env":
                L.append("out env {ID = id, N = n};")
            elif conv == "flags":
                L.append("out flags {id = id, dep = deps};")
    elif fail == "convert":
        L.append("out toml {id = id, bad = NULL};")
    if fail == "post_out":
        L.append('let broken = fail "late-%s";' % f["uid"])
    return "\n".join(L) + "\n"


def artifact_rel(f):
    if f["fail"] == "convert":
        conv = "toml"
    elif f["fail"] == "convert_late_xml":
        conv = "xml"
    elif f["fail"] == "convert_late_yamlmulti":
        conv = "yamlmulti"
    elif f["out"]:
        conv = f["out"]
    else:
        return None
    return f["path"][:-4] + "." + EXT[conv]


def render(world):
    return {"files": {f["path"]: render_file(world, i, "<ROOT>/w/proj") for i, f in enumerate(world["files"])},
            "strict": world["strict"], "fault": world["fault"], "fsize": world["fsize"], "schedules": world["schedules"]}


_BUILDING = re.compile(r"^Building (.+)$")
_INFO = re.compile(r"^(Build results in no artifacts\.|Skipping .*|TRACE: .*|including an empty file.*)$")


def segments(out):
    """[(path as printed, [lines])] in build order."""
    segs = []
    cur = None
    pre = []
    for line in out.split("\n"):
        m = _BUILDING.match(line)
        if m:
            cur = (m.group(1), [])
            segs.append(cur)
        elif cur is not None:
            cur[1].append(line)
        else:
            pre.append(line)
    return pre, segs


def seg_failed(lines):
    return any(l.strip() and not _INFO.match(l) for l in lines)


class Copy:
    """One pristine materialisation of the world under <ROOT>/wK."""

    def __init__(self, sb, world, k):
        self.sb = sb
        self.k = k
        self.base = "w%d" % k
        self.proj = self.base + "/proj"
        self.abs = sb.p(self.proj)
        sb.mkdir(self.proj)
        files = world["files"]
        if any(f.get("include") for f in files):
            sb.write(self.proj + "/shared_data.json", '{"k": [1, "two"], "s": "text"}\n')
        for i in world["creation"]:
            f = files[i]
            fault = world["fault"]
            if f.get("symlink_to") is not None:
                tgt = files[f["symlink_to"]]["path"]
                sb.symlink(self.proj + "/" + f["path"], os.path.relpath(tgt, os.path.dirname(f["path"]) or "."))
                continue
            if fault and fault["file"] == i and fault["kind"] == "nonutf8_source":
                sb.write(self.proj + "/" + f["path"], b"let id = \"\xff\xfe\";\n")
            elif fault and fault["file"] == i and fault["kind"] == "dangling_source":
                sb.symlink(self.proj + "/" + f["path"], "/nonexistent/ucgsim-target.ucg")
            else:
                sb.write(self.proj + "/" + f["path"], render_file(world, i, self.abs))
            if f["fail"] == "lazy_broken_import":
                d = os.path.dirname(f["path"])
                sb.write(self.proj + "/" + (d + "/" if d else "") + "broken-%s.ucg" % f["uid"], "let id = ;\n")
        fault = world["fault"]
        if fault and fault["kind"] in ("eisdir", "enospc"):
            art = artifact_rel(files[fault["file"]])
            if art:
                if fault["kind"] == "eisdir":
                    sb.mkdir(self.proj + "/" + art)
                else:
                    sb.symlink(self.proj + "/" + art, "/dev/full")
        self.pristine = sb.snapshot(self.proj)

    def norm(self, text):
        return text.replace("<ROOT>/" + self.base, "<W>")

    def artifacts(self):
        """paths created or changed relative to the pristine tree -> bytes"""
        snap = self.sb.snapshot(self.proj)
        out = {}
        pre = len(self.proj) + 1
        for p, d in snap.items():
            if self.pristine.get(p) != d:
                if d[0] == "f":
                    out[p[pre:]] = self.sb.read(p).hex()
                else:
                    out[p[pre:]] = d
        for p in self.pristine:
            if p not in snap:
                out[p[pre:]] = ["removed"]
        return out


def path_to_index(world, printed, cwd_rel):
    """Map the path printed after `Building` (argument as given / joined by the directory walk) to a file index."""
    p = printed
    if p.startswith("<W>/proj"):
        p = p[len("<W>/proj"):].lstrip("/")
    p = os.path.normpath(p)
    for i, f in enumerate(world["files"]):
        if f["path"] == p:
            return i
    return None


def arg_spelling(path, how):
    if how == "dot":
        return "./" + path
    if how == "dotdot":
        d = os.path.dirname(path)
        if d:
            return d.split("/")[0] + "/../" + path
        return "./" + path
    return path


def execute(world, sb, res):
    files = world["files"]
    n = len(files)
    flags = [] if world["strict"] else ["--no-strict"]
    fsize = world["fsize"]
    copies = [0]

    def new_copy():
        c = Copy(sb, world, copies[0])
        copies[0] += 1
        return c

    # ---- reference: every file alone, fresh process, pristine tree -----------------
    alone = {}
    for i, f in enumerate(files):
        c = new_copy()
        inv = sb.invoke(flags + ["build", f["path"]], cwd=c.proj, fsize=fsize)
        out = c.norm(inv.out)
        if inv.timed_out:
            res.violate("C16.terminates", f["role"], "building %s alone did not terminate" % f["path"])
            return
        pre, segs = segments(out)
        failed = (inv.status != 0)
        seg_says = seg_failed(segs[0][1]) if segs else True
        if failed != seg_says:
            # the stream classification and the exit status must agree on the trivial schedule, otherwise the
            # classification cannot be trusted for this world: skip it, and count
            res.metric("alone_classification_disagrees")
            res.history.append({"alone": f["path"], "status": inv.status, "out": out, "note": "classification disagrees; world skipped"})
            return
        alone[i] = {"failed": failed, "arts": c.artifacts(), "status": inv.status, "signal": inv.signal}
        res.history.append({"alone": f["path"], "status": inv.status, "signal": inv.signal, "arts": sorted(alone[i]["arts"]), "out": out})
        if world["fault"] and world["fault"]["file"] == i or fsize is not None:
            if "Is a directory" in out:
                res.fault("eisdir")
            if "No space left" in out:
                res.fault("enospc")
            if "File too large" in out:
                res.fault("efbig")
            if "valid UTF-8" in out:
                res.fault("nonutf8_source")
            if "No such file" in out and world["fault"] and world["fault"]["kind"] == "dangling_source":
                res.fault("dangling_source")

    # ---- static facts for probes / keys ---------------------------------------------
    importers = {}
    for i, f in enumerate(files):
        for imp in f["imports"]:
            importers.setdefault(imp["target"], set()).add(i)
    bases = [os.path.basename(f["path"]) for f in files]
    if len(set(bases)) < len(bases):
        res.probe("same_basename_pair")
    if any(files[t]["role"] == "failing" for t in importers):
        res.probe("failing_lib_imported")
    if any(f.get("symlink_to") is not None for f in files):
        res.probe("symlinked_template_pair")
    if len(set(f.get("include") for f in files if f.get("include"))) >= 2:
        res.probe("shared_data_included_under_two_types")
    if any(f.get("reexport") for f in files):
        res.probe("library_imports_its_sibling_by_name")
    if any(files[t].get("asserts") == "false" for t in importers):
        res.probe("false_assert_in_imported_file")

    def closure(i, seen=None):
        seen = seen if seen is not None else set()
        for imp in files[i]["imports"]:
            if imp["target"] not in seen:
                seen.add(imp["target"])
                closure(imp["target"], seen)
        return seen

    def absdesc(order):
        return [[files[i]["role"], files[i]["fail"], files[i]["out"], sorted(files[t["target"]]["role"] for t in files[i]["imports"])] for i in order]

    # ---- batches ----------------------------------------------------------------------
    for sc in world["schedules"]:
        c = new_copy()
        mode = sc["mode"]
        cwd = c.proj
        if mode == "files":
            args = []
            for pos, i in enumerate(sc["order"]):
                p = arg_spelling(files[i]["path"], sc["spell"][pos])
                if sc["spell"][pos] != "plain":
                    res.probe("respelled_argument")
                args.append(c.abs + "/" + p if sc["abs"] else p)
            argv = flags + ["build"] + args
        elif mode == "mixed":
            fargs = [files[i]["path"] for i in sc["order"]]
            argv = flags + ["build"] + (["-r"] if sc["recurse"] else []) + ([sc["dir"]] + fargs if sc["dir_first"] else fargs + [sc["dir"]])
        elif mode == "dir_r":
            argv = flags + ["build", "-r", "."]
        elif mode == "dir_r_abs":
            argv = flags + ["build", "-r", c.abs]
        elif mode == "noargs_r":
            argv = flags + ["build", "-r"]
        elif mode == "noargs":
            argv = flags + ["build"]
        else:
            raise ValueError(mode)
        for rep in (0, 1):
            inv = sb.invoke(argv, cwd=cwd, fsize=fsize)
            out = c.norm(inv.out)
            if inv.timed_out:
                res.violate("C16.terminates", mode, "batch did not terminate: %s" % argv)
                return
            pre, segs = segments(out)
            built = []
            for printed, lines in segs:
                idx = path_to_index(world, printed, "")
                built.append((idx, printed, seg_failed(lines), lines))
            arts = c.artifacts()
            res.history.append({"batch": [c.norm(sb.norm(a)) for a in argv], "rep": rep, "status": inv.status, "signal": inv.signal,
                                "built": [[b[1], b[2]] for b in built], "arts": sorted(arts), "out": out})
            order = [b[0] for b in built if b[0] is not None]
            unknown = [b[1] for b in built if b[0] is None and not os.path.basename(b[1]).startswith("broken-")]
            if unknown:
                res.harness_error = "cannot map printed path(s) %s to a file of the world" % unknown
                return
            helper_failed = any(b[2] for b in built if b[0] is None)   # the deliberately broken helper file met by a directory walk
            helper_built = any(b[0] is None for b in built)
            built = [b for b in built if b[0] is not None]
            # every file of the set is built: argv order for explicit files, the walked set for directories
            if mode == "files":
                want = list(sc["order"])
                if order != want:
                    res.violate("C16.not-built", "files", "files given on the command line: %s; files actually built, in order: %s\n%s" % (
                        [files[i]["path"] for i in want], [files[i]["path"] for i in order],
                        "argv: %s\n--- exit=%s\n%s" % (" ".join(c.norm(sb.norm(a)) for a in argv), inv.status, out[-1500:])))
            elif mode in ("dir_r", "dir_r_abs", "noargs_r", "noargs"):
                want = sorted(i for i in range(n) if mode != "noargs" or "/" not in files[i]["path"])
                if sorted(order) != want:
                    res.violate("C16.not-built", "walk", "the directory walk (%s) should build %s but built %s\n%s" % (
                        mode, [files[i]["path"] for i in want], [files[i]["path"] for i in order],
                        "argv: %s\n--- exit=%s\n%s" % (" ".join(c.norm(sb.norm(a)) for a in argv), inv.status, out[-1500:])))
            elif mode == "mixed":
                want = set(sc["order"]) | set(i for i in range(n) if files[i]["path"].startswith(sc["dir"] + "/") and
                                              (sc["recurse"] or files[i]["path"].count("/") == 1))
                if set(order) != want:
                    res.violate("C16.not-built", "mixed", "directory %s plus files %s should build %s but built %s\n%s" % (
                        sc["dir"], [files[i]["path"] for i in sc["order"]], sorted(files[i]["path"] for i in want), [files[i]["path"] for i in order],
                        "argv: %s\n--- exit=%s\n%s" % (" ".join(c.norm(sb.norm(a)) for a in argv), inv.status, out[-1500:])))
            if mode != "files" and order != sorted(order, key=lambda i: files[i]["path"]):
                res.probe("dir_walk_order_differs_from_sorted")
            if rep == 1:
                res.probe("second_run_over_artifacts")
            if sc.get("twice"):
                res.probe("listed_twice")
            if mode == "mixed":
                res.probe("directory_and_files_mixed")
            ctx = "argv: %s (cwd <W>/proj, %s)%s\n--- exit=%s signal=%s\n%s" % (
                " ".join(c.norm(sb.norm(a)) for a in argv), "second run in place" if rep else "first run on a pristine tree",
                "" if world["strict"] else " --no-strict", inv.status, inv.signal, out[-1500:])
            # (1) per-file status equals alone
            seen_before = []
            for pos, (i, printed, failed, lines) in enumerate(built):
                f = files[i]
                if failed != alone[i]["failed"]:
                    earlier = sorted(set(files[j]["role"] for j in seen_before)) or ["none"]
                    rel = "imports-earlier" if any(j in closure(i) for j in seen_before) else (
                        "imported-by-earlier" if any(i in closure(j) for j in seen_before) else (
                            "same-file-earlier" if i in seen_before else "unrelated"))
                    res.violate("C16.status-differs", "%s,%s" % (f["role"], rel),
                                "%s %s in this batch but %s when built alone in a fresh process (earlier in the batch: %s)\n%s" % (
                                    f["path"], "FAILED" if failed else "succeeded", "FAILED" if alone[i]["failed"] else "succeeded",
                                    [files[j]["path"] for j in seen_before], ctx))
                seen_before.append(i)
            # (2) exit status = OR over files
            any_failed_alone = any(alone[i]["failed"] for i in order) or helper_built
            any_failed_batch = any(b[2] for b in built) or helper_failed
            if (inv.status != 0) != any_failed_batch:
                res.violate("C16.exit-status", "stream", "exit status %s but the output shows %s failing file(s)\n%s" % (
                    inv.status, sum(1 for b in built if b[2]), ctx))
            elif (inv.status != 0) != any_failed_alone and any_failed_batch == any_failed_alone:
                res.violate("C16.exit-status", "alone", "exit status %s disagrees with the files' alone results\n%s" % (inv.status, ctx))
            # (3) artifact map = union of alone maps
            expect = {}
            conflict = set()
            for i in set(order):
                for p, b in alone[i]["arts"].items():
                    if p in expect and expect[p] != b:
                        conflict.add(p)
                    expect[p] = b
            if conflict:
                res.metric("alone_runs_disagree_on_a_path", len(conflict))
            for p in sorted(set(expect) | set(arts)):
                if p in conflict:
                    continue
                if expect.get(p) != arts.get(p):
                    owner = next((f for f in files if artifact_rel(f) == p), None)
                    res.violate("C16.artifact-differs", owner["role"] if owner else "unknown",
                                "artifact %s after the batch: %s; building the files alone gives: %s\n%s" % (
                                    p, _show(arts.get(p)), _show(expect.get(p)), ctx))
                    break
            # probes + key
            for pos, i in enumerate(order):
                if files[i]["role"] == "dual":
                    if any(j in importers.get(i, ()) for j in order[:pos]):
                        res.probe("dual_built_after_importer")
                    if any(j in importers.get(i, ()) for j in order[pos + 1:]):
                        res.probe("dual_built_before_importer")
                if alone[i]["failed"] and len(order) > 1:
                    res.probe("failing_first" if pos == 0 else ("failing_last" if pos == len(order) - 1 else "failing_middle"))
            shared = False
            cl = [closure(i) | {i} for i in order]
            for a in range(len(order)):
                for b in range(a + 1, len(order)):
                    if order[a] != order[b] and (cl[a] & cl[b]):
                        shared = True
            ents = [i for i in order if files[i]["role"] in ("entry", "dual")]
            if len([i for i in set(ents) if any(t in closure(i) for t in range(n) if len(importers.get(t, ())) >= 2)]) >= 2:
                res.probe("shared_lib_two_entries")
            mixed = any(alone[i]["failed"] for i in order) and any(not alone[i]["failed"] for i in order)
            res.key([absdesc(order), mode, rep, world["fault"]["kind"] if world["fault"] else None, fsize is not None],
                    len(set(order)) >= 2 and (shared or mixed))


def _show(b):
    if b is None:
        return "absent"
    if isinstance(b, list):
        return str(b)
    try:
        return repr(bytes.fromhex(b))[:300]
    except Exception:
        return repr(b)[:300]


def shrink_candidates(world):
    w = world
    files = w["files"]
    n = len(files)
    # fewer schedules
    if len(w["schedules"]) > 1:
        for i in range(len(w["schedules"])):
            yield dict(w, schedules=[w["schedules"][i]])
        for i in range(len(w["schedules"])):
            yield dict(w, schedules=w["schedules"][:i] + w["schedules"][i + 1:])
    # drop a file (re-index imports, schedules, creation)
    if n > 1:
        for d in range(n):
            def ri(j):
                return j if j < d else j - 1
            nf = []
            for i, f in enumerate(files):
                if i == d:
                    continue
                g = dict(f, imports=[dict(imp, target=ri(imp["target"])) for imp in f["imports"] if imp["target"] != d])
                if g.get("symlink_to") is not None:
                    if g["symlink_to"] == d:
                        g = None
                    else:
                        g["symlink_to"] = ri(g["symlink_to"])
                if g is None:
                    nf = None
                    break
                nf.append(g)
            if nf is None:
                continue
            ns = []
            for sc in w["schedules"]:
                if sc["mode"] == "files":
                    keep = [(ri(i), sc["spell"][k]) for k, i in enumerate(sc["order"]) if i != d]
                    if not keep:
                        continue
                    ns.append(dict(sc, order=[k[0] for k in keep], spell=[k[1] for k in keep]))
                elif sc["mode"] == "mixed":
                    ns.append(dict(sc, order=[ri(i) for i in sc["order"] if i != d]))
                else:
                    ns.append(sc)
            if not ns:
                continue
            fault = w["fault"]
            if fault:
                if fault["file"] == d:
                    fault = None
                else:
                    fault = dict(fault, file=ri(fault["file"]))
            yield dict(w, files=nf, schedules=ns, fault=fault, creation=[ri(i) for i in w["creation"] if i != d])
    # shorten file orders
    for k, sc in enumerate(w["schedules"]):
        if sc["mode"] == "files" and len(sc["order"]) > 1:
            for i in range(len(sc["order"])):
                yield dict(w, schedules=w["schedules"][:k] + [dict(sc, order=sc["order"][:i] + sc["order"][i + 1:],
                                                                      spell=sc["spell"][:i] + sc["spell"][i + 1:])] + w["schedules"][k + 1:])
        if sc["mode"] == "files" and (sc.get("abs") or any(s != "plain" for s in sc["spell"])):
            yield dict(w, schedules=w["schedules"][:k] + [dict(sc, abs=False, spell=["plain"] * len(sc["order"]))] + w["schedules"][k + 1:])
    if w["fault"]:
        yield dict(w, fault=None)
    if w["fsize"] is not None:
        yield dict(w, fsize=None)
    if not w["strict"]:
        yield dict(w, strict=True)
    # simplify files
    for i, f in enumerate(files):
        for k in range(len(f["imports"])):
            yield dict(w, files=files[:i] + [dict(f, imports=f["imports"][:k] + f["imports"][k + 1:])] + files[i + 1:])
        for k, imp in enumerate(f["imports"]):
            if imp["spelling"] != "plain":
                yield dict(w, files=files[:i] + [dict(f, imports=f["imports"][:k] + [dict(imp, spelling="plain")] + f["imports"][k + 1:])] + files[i + 1:])
        if f["std"]:
            yield dict(w, files=files[:i] + [dict(f, std=False)] + files[i + 1:])
        if f["fail"]:
            yield dict(w, files=files[:i] + [dict(f, fail=None, role="entry" if f["out"] else "lib")] + files[i + 1:])
        if "/" in f["path"]:
            newp = os.path.basename(f["path"])
            if all(g["path"] != newp for g in files):
                yield dict(w, files=files[:i] + [dict(f, path=newp)] + files[i + 1:])
    if w["creation"] != sorted(w["creation"]):
        yield dict(w, creation=sorted(w["creation"]))


ASSUMPTIONS = [
    "reference = the subject itself on the trivial schedule (one file, fresh process, pristine tree); a defect that shows identically alone and in a batch is invisible here",
    "per-file status in a batch is read from the merged output stream (error block between two `Building` lines) and cross-checked against the exit status",
    "stderr text is not compared: the property speaks of success/failure and artifacts",
]
