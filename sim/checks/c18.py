"""C18 — `env` exposes the process environment, nothing else, and cannot be shadowed.

Weakest claim of the set (DESIGN.md §3 C18): there is no schedule and no I/O fault here; the simulator contributes
hermetic control of the ambient environment (exactly the generated variables, nothing inherited) and a scan of the
whole output history for values the program never asked for."""
import json

PROPERTY = "C18"
LEVEL = "exploration"
RULE = ("hermetic environments of 0-20 variables (names from [A-Za-z0-9_] incl. digit-initial names and UCG reserved words through the quoted "
        "selector; values: ASCII, empty, blanks, quotes, $, backquotes, backslashes, newlines/tabs, BMP and astral Unicode, combining marks, "
        "up to 200 code points; every value carries a unique token) with 1-3 planted secrets; programs reading set and unset names at top "
        "level, in functions, modules, imported libraries, through quoted selectors and next to tuple fields named env; strict and --no-strict; "
        "plus `let env = ...`. A case = one read in its situation; distinct = distinct (position, set/unset, strictness, value class, name "
        "class); non-trivial = an unset read, a non-alphanumeric value, a quoted-selector name or a field named env")

TIERS = {
    "quick": {"runs": 1500, "wall_cap": 200},
    "thorough": {"runs": 60000, "wall_cap": 3300, "reexecute": 100},
}
FAULT_KINDS = []
PROBES = ["unset_strict", "unset_nonstrict", "secret_planted_and_unset_read", "quoted_reserved_name", "digit_initial_name", "non_ascii_value",
          "newline_value", "empty_value", "field_named_env", "let_env", "read_in_library", "empty_environment", "var_named_env",
          "env_passed_as_value", "tiny_environment", "failing_file_built_first", "let_env_variant", "reached_by_recursive_walk", "wellknown_name", "same_file_built_twice", "null_test_position", "long_name", "template_with_env_field"]
PROBES_OPTIONAL = False
RESERVED = ["let", "import", "self", "mod", "out", "assert", "true", "false", "NULL", "select", "func", "module", "map", "filter", "reduce",
            "include", "fail", "not", "in", "is", "as", "env", "convert", "constraint", "TRACE"]
POSITIONS = ["top", "func", "module", "quoted", "lib", "format", "tuple_value", "list_value", "func_arg", "module_arg", "tuple_holding_env",
             "null_compare", "null_compare_flipped", "select_on_null", "template_with_env_field", "filter_predicate", "module_param_int_default"]
# positions whose value is a function of set/unset only (a comparison with NULL), not the variable's text
NULL_TESTS = {"null_compare": (False, True), "null_compare_flipped": (True, False), "select_on_null": ("is-set", "is-null"),
              "filter_predicate": (["probe"], [])}
VALUE_CLASSES = ["ascii", "empty", "blanks", "dquote", "squote", "dollar", "backquote", "backslash", "newline", "tab", "bmp", "astral",
                 "combining", "rtl", "long", "equals", "jsonish", "percent_at"]


def make_value(rng, cls, tok):
    if cls == "ascii":
        return tok
    if cls == "empty":
        return ""
    if cls == "blanks":
        return "  " + tok + " x  "
    if cls == "dquote":
        return 'say "' + tok + '" "'
    if cls == "squote":
        return "it's '" + tok + "'"
    if cls == "dollar":
        return "$HOME ${" + tok + "} $(id)"
    if cls == "backquote":
        return "`" + tok + "` `id`"
    if cls == "backslash":
        return "C:\\" + tok + "\\n\\t\\\\"
    if cls == "newline":
        return "l1-" + tok + "\nl2\r\nl3"
    if cls == "tab":
        return "a\t" + tok + "\tb"
    if cls == "bmp":
        return "é日本語-" + tok + "-ßΩж"
    if cls == "astral":
        return "\U0001F600" + tok + "\U0001F680\U00010348"
    if cls == "combining":
        return "e\u0301a\u0308-" + tok
    if cls == "rtl":
        return "\u05e9\u05dc\u05d5\u05dd-" + tok + "-\u0645\u0631\u062d\u0628\u0627"
    if cls == "long":
        return (tok + "-") * 18 + "é" * rng.between(0, 10)
    if cls == "equals":
        return "a=b=" + tok + "="
    if cls == "jsonish":
        return '{"k": ["' + tok + '", null, 1.5]}'
    if cls == "percent_at":
        return "100% @ " + tok + " @@ %s"
    raise ValueError(cls)


def make_name(rng, used):
    for _ in range(50):
        kind = rng.weighted([("upper", 6), ("mixed", 3), ("lower", 2), ("underscore", 1), ("digit", 1), ("reserved", 1), ("single", 1), ("wellknown", 2), ("long", 1)])
        if kind == "upper":
            n = "".join(rng.choice("ABCDEFGHIJKLMNOPQRSTUVWXYZ_") for _ in range(rng.between(2, 10)))
            if n[0] == "_" and rng.chance(50):
                n = "X" + n
        elif kind == "mixed":
            n = rng.choice("abcdefgXYZ") + "".join(rng.choice("abcdefghijklmnopqrstuvwxyzABCDEFGHIJKLMNOPQRSTUVWXYZ0123456789_") for _ in range(rng.between(1, 12)))
        elif kind == "lower":
            n = "".join(rng.choice("abcdefghijklmnopqrstuvwxyz") for _ in range(rng.between(2, 8)))
        elif kind == "underscore":
            n = "_" + rng.token(4)
        elif kind == "digit":
            n = rng.choice("0123456789") + rng.token(3).upper()
            if rng.chance(40):
                n = "".join(rng.choice("0123456789") for _ in range(rng.between(1, 4)))   # all digits, leading zeros included
        elif kind == "reserved":
            n = rng.choice(RESERVED)
        elif kind == "long":
            n = "SERVICE_" + "_".join(rng.token(6).upper() for _ in range(rng.between(5, 10)))     # 40-80 characters
        elif kind == "wellknown":
            # variables the compiler, its libraries or the shell give a meaning to; for `env` they are variables like any other
            n = rng.choice(["UCG_IMPORT_PATH", "PATH", "USER", "PWD", "OLDPWD", "XDG_CACHE_HOME", "TERM", "LANG", "LC_ALL", "RUST_LOG", "TMPDIR", "SHELL", "EDITOR", "NO_COLOR"])
        else:
            n = rng.choice("abcxyzABCXYZ_")
        if n not in used and n != "HOME":
            used.add(n)
            return n
    n = "V" + rng.token(8).upper()
    used.add(n)
    return n


def name_class(n):
    if n in RESERVED:
        return "reserved"
    if n[0].isdigit():
        return "digit-initial"
    if n[0] == "_":
        return "underscore-initial"
    return "bareword"


def needs_quote(n):
    # barewords start with a letter (the tokenizer rejects `_x` and `1x` as symbols): such names are reachable through the quoted selector
    # ... and a bareword that merely *starts* with true, false or NULL is split by the tokenizer (`env.trueish` does not parse): quoted, too
    return n in RESERVED or not n[0].isalpha() or n in ("str", "int", "float", "bool") or n.startswith(("true", "false", "NULL"))


def generate(rng, tier, idx):
    nvars = rng.weighted([(0, 1), (1, 2), (rng.between(2, 6), 6), (rng.between(7, 20), 3)])
    used = set()
    env = []
    fav = rng.sample(VALUE_CLASSES, rng.between(2, 5))
    for i in range(nvars):
        n = make_name(rng, used)
        cls = rng.choice(fav) if rng.chance(70) else rng.choice(VALUE_CLASSES)
        tok = "v" + rng.token(11)
        env.append({"name": n, "cls": cls, "tok": tok, "value": make_value(rng, cls, tok), "secret": False})
    for i in range(rng.between(1, 3)):
        n = rng.choice(["SECRET", "API_KEY", "DB_PASSWORD", "TOKEN", "AWS_SECRET_ACCESS_KEY"]) + ("_%d" % i if i else "")
        if n in used:
            continue
        used.add(n)
        tok = "s3cr3t" + rng.token(14)
        env.append({"name": n, "cls": "ascii", "tok": tok, "value": tok, "secret": True})
    env = rng.shuffle(env)
    strict = rng.chance(55)
    reads = []
    readable = [e for e in env if not e["secret"]]
    nreads = rng.between(1, 6)
    unset_budget = rng.weighted([(0, 4), (1, 5), (2, 1)])
    for i in range(nreads):
        if readable and not (unset_budget and rng.chance(35)):
            e = rng.choice(readable)
            reads.append({"name": e["name"], "set": True, "pos": rng.choice([p for p in POSITIONS if p != "module_param_int_default"])})
        elif unset_budget:
            unset_budget -= 1
            # (format renders NULL as the text "NULL"; what format does with NULL is not this property's business)
            reads.append({"name": make_name(rng, used), "set": False, "pos": rng.choice([p for p in POSITIONS if p not in ("format", "template_with_env_field")])})
    if not reads:
        reads.append({"name": make_name(rng, used), "set": False, "pos": "top"})
    for r in reads:
        if needs_quote(r["name"]) and r["pos"] not in ("quoted", "template_with_env_field") and r["pos"] not in NULL_TESTS:
            r["pos"] = "quoted"
    # a direct read after env was handed around as a value (two cooperating sites)
    if any(r["pos"] in ("func_arg", "module_arg", "tuple_holding_env") for r in reads) and readable:
        e = rng.choice(readable)
        reads.append({"name": e["name"], "set": True, "pos": "quoted" if needs_quote(e["name"]) else "top"})
    return {"env": env, "strict": strict, "reads": reads, "fields": rng.chance(40),
            "let_env": rng.choice(LET_ENV_FORMS) if rng.chance(25) else None,
            # history dimension: another file of the same invocation failed before this one is built
            "pre_fail": rng.choice(PRE_FAILS) if rng.chance(20) else None,
            # how the file is reached: named on the command line, or found by a recursive directory walk one level down
            "walk": rng.chance(15),
            "field_uid": "fld" + rng.token(8)}


LET_ENV_FORMS = ["plain", "annotated", "in_module", "in_module_annotated", "after_use", "constraint_stmt"]
LET_ENV_SRC = {
    "plain": 'let env = {HOME = "shadowed"};\nout json {v = env.HOME};\n',
    "annotated": 'let env :: {HOME = ""} = {HOME = "shadowed"};\nout json {v = env.HOME};\n',
    "in_module": 'let m = module {a = 1} => { let env = {HOME = "shadowed"}; let r = env.HOME; };\nout json {v = m{}.r};\n',
    "in_module_annotated": 'let m = module {a = 1} => { let env :: {HOME = ""} = {HOME = "shadowed"}; let r = env.HOME; };\nout json {v = m{}.r};\n',
    "after_use": 'let first = env.HOME;\nlet env = {HOME = "shadowed"};\nout json {v = env.HOME};\n',
    "constraint_stmt": 'constraint env = "a" | "b";\nout json {v = env.HOME};\n',
}
PRE_FAILS = ["runtime_fail", "unset_var", "type_error", "syntax_error", "missing_import", "same_file", "same_file"]
PRE_FAIL_SRC = {
    "runtime_fail": 'let boom = fail "pre-file fails";\n',
    "unset_var": "let nope = env.UCGSIM_PRE_UNSET;\n",
    "type_error": 'let bad = 1 + "a";\n',
    "syntax_error": "let bad = ;\n",
    "missing_import": 'let gone = import "./no-such-file.ucg";\n',
}


def sel(name):
    return 'env."%s"' % name if needs_quote(name) else "env." + name


def render_programs(world):
    L = ["let idf = func (x) => x;"]
    lib = []
    outs = []
    for i, r in enumerate(world["reads"]):
        s = sel(r["name"])
        pos = r["pos"]
        if pos == "top":
            L.append("let v%d = %s;" % (i, s))
        elif pos == "quoted":
            L.append('let v%d = env."%s";' % (i, r["name"]))
        elif pos == "func":
            L.append("let f%d = func (x) => %s;\nlet v%d = f%d(1);" % (i, s, i, i))
        elif pos == "module":
            L.append("let m%d = module {a = 1} => { let r = %s; };\nlet v%d = m%d{}.r;" % (i, s, i, i))
        elif pos == "lib":
            lib.append("let v%d = %s;" % (i, s))
            L.append("let v%d = lib.v%d;" % (i, i))
        elif pos == "format":
            L.append('let v%d = "@" %% (idf(%s));' % (i, s))
        elif pos == "func_arg":      # env handed to a function as a value
            L.append("let g%d = func (e) => e.%s;\nlet v%d = g%d(env);" % (i, r["name"], i, i))
        elif pos == "module_arg":
            L.append("let m%d = module {e = env} => { let r = mod.e.%s; };\nlet v%d = m%d{}.r;" % (i, r["name"], i, i))
        elif pos == "tuple_holding_env":
            L.append("let h%d = {e = env};\nlet v%d = h%d.e.%s;" % (i, i, i, r["name"]))
        elif pos == "template_with_env_field":
            # inside "@{...}" the name env still means the environment; the argument's own field is item.env
            L.append('let v%d = "@{%s}" %% {env = {%s = "shadow-field"}, other = 1};' % (
                i, s.replace('"', '\\"'), r["name"] if not needs_quote(r["name"]) else "x"))
        elif pos == "filter_predicate":
            L.append('let v%d = filter(func (x) => %s != NULL, ["probe"]);' % (i, s))
        elif pos == "module_param_int_default":
            # an unset variable handed to a module parameter whose default is an integer (NULL is acceptable there, a string would not be)
            L.append("let srv%d = module {port = 8080} => { let r = mod.port; };\nlet v%d = srv%d{port = %s}.r;" % (i, i, i, s))
        elif pos == "null_compare":
            L.append("let v%d = %s == NULL;" % (i, s))
        elif pos == "null_compare_flipped":
            L.append("let v%d = NULL != %s;" % (i, s))
        elif pos == "select_on_null":
            L.append('let v%d = select (%s == NULL, "x") => { true = "is-null", false = "is-set" };' % (i, s))
        elif pos == "tuple_value":
            L.append("let v%d = {k = %s}.k;" % (i, s))
        elif pos == "list_value":
            L.append("let v%d = [%s].0;" % (i, s))
        outs.append("v%d = v%d" % (i, i))
    if world["fields"]:
        u = world["field_uid"]
        first = next((e for e in world["env"] if not needs_quote(e["name"])), None)
        L.append('let w0 = {env = "%s"}.env;' % u)
        L.append('let t = {env = "%s-t", other = 1};\nlet w1 = t.env;' % u)
        inner = first["name"] if first else "ANY"
        L.append('let w2 = {env = {%s = "%s-inner"}}.env.%s;' % (inner, u, inner))
        outs += ["w0 = w0", "w1 = w1", "w2 = w2"]
    if lib:
        L.insert(1, 'let lib = import "./lib.ucg";')
    L.append("out json {%s};" % ", ".join(outs))
    return "\n".join(L) + "\n", ("\n".join(lib) + "\n" if lib else None)


def render(world):
    main, lib = render_programs(world)
    return {"main.ucg": main, "lib.ucg": lib, "env": {e["name"]: e["value"] for e in world["env"]}, "strict": world["strict"]}


def execute(world, sb, res):
    envmap = {e["name"]: e["value"] for e in world["env"]}
    main, lib = render_programs(world)
    sb.mkdir("proj")
    sb.write("proj/main.ucg", main)
    if lib:
        sb.write("proj/lib.ucg", lib)
        res.probe("read_in_library")
    flags = [] if world["strict"] else ["--no-strict"]
    pre = world.get("pre_fail")
    walk = world.get("walk") and not pre
    if walk:
        # the same two files live one directory level down and are found by `ucg build -r` started from the parent
        import shutil
        shutil.move(sb.p("proj"), sb.p("proj_inner"))
        sb.mkdir("proj")
        shutil.move(sb.p("proj_inner"), sb.p("proj/sub"))
        res.probe("reached_by_recursive_walk")
        inv = sb.invoke(flags + ["build", "-r"], cwd="proj", env=envmap)
        cut = inv.out.find("/main.ucg")
        cut = inv.out.rfind("Building ", 0, cut) if cut >= 0 else -1
        if cut < 0:
            res.violate("C18.not-built", "walk", "the recursive walk did not build sub/main.ucg\n%s" % inv.out[-800:])
            return
        seg = inv.out[cut:]
        nxt = seg.find("\nBuilding ", 1)
        out = seg[:nxt] if nxt >= 0 else seg
        status = 1 if [l for l in out.split("\n")[1:] if l.strip()] else 0
        art_dir = "proj/sub"
    elif pre:
        if pre == "same_file":
            # the file itself is listed twice: whatever the first build left in the process must not change the second
            res.probe("same_file_built_twice")
            inv = sb.invoke(flags + ["build", "main.ucg", "main.ucg"], cwd="proj", env=envmap)
        else:
            sb.write("proj/pre.ucg", PRE_FAIL_SRC[pre])
            res.probe("failing_file_built_first")
            inv = sb.invoke(flags + ["build", "pre.ucg", "main.ucg"], cwd="proj", env=envmap)
        # what the process says about main.ucg is everything after its (last) `Building` line
        cut = inv.out.rfind("Building main.ucg")
        out = inv.out[cut:] if cut >= 0 else ""
        if cut < 0:
            res.violate("C18.not-built", pre, "main.ucg was not built after pre.ucg failed\n%s" % inv.out[-800:])
            return
        main_failed = len([l for l in out.split("\n")[1:] if l.strip()]) > 0
        status = 1 if main_failed else 0
    else:
        inv = sb.invoke(flags + ["build", "main.ucg"], cwd="proj", env=envmap)
        out = inv.out
        status = inv.status
    if not walk:
        art_dir = "proj"
    art = None
    if sb.exists(art_dir + "/main.json"):
        try:
            art = json.loads(sb.read(art_dir + "/main.json").decode("utf-8"))
        except Exception:
            art = "undecodable"
    res.history.append({"argv": inv.argv, "env_names": sorted(envmap), "status": inv.status, "main_status": status, "signal": inv.signal, "out": out, "artifact": art})
    ctx = "environment: %s\nprogram:\n%s--- ucg %s: exit=%s signal=%s\n%s" % (
        json.dumps({k: envmap[k] for k in sorted(envmap)}, ensure_ascii=True)[:1500], main + ("lib.ucg:\n" + lib if lib else ""),
        " ".join(inv.argv), status, inv.signal, out[-1500:])
    if inv.timed_out:
        res.violate("C18.terminates", "build", "build did not terminate\n" + ctx)
        return
    if not envmap or all(e["secret"] for e in world["env"]):
        res.probe("empty_environment")
    if "env" in envmap:
        res.probe("var_named_env")
    if any(r["pos"] in ("func_arg", "module_arg", "tuple_holding_env") for r in world["reads"]):
        res.probe("env_passed_as_value")
    if len(envmap) + 1 <= 3:   # + HOME
        res.probe("tiny_environment")
    unset = [r for r in world["reads"] if not r["set"]]
    # lib reads are evaluated at the import, i.e. before everything else
    order = [r for r in world["reads"] if r["pos"] == "lib"] + [r for r in world["reads"] if r["pos"] != "lib"]
    first_unset = next((r for r in order if not r["set"]), None)
    for r in world["reads"]:
        e = next((e for e in world["env"] if e["name"] == r["name"]), None)
        cls = e["cls"] if e else None
        nontrivial = (not r["set"]) or (cls not in ("ascii",)) or r["pos"] == "quoted"
        res.key([r["pos"], r["set"], world["strict"], cls, name_class(r["name"])], nontrivial)
        if r["pos"] in NULL_TESTS:
            res.probe("null_test_position")
        if len(r["name"]) > 40:
            res.probe("long_name")
        if r["pos"] == "template_with_env_field":
            res.probe("template_with_env_field")
        if name_class(r["name"]) == "reserved":
            res.probe("quoted_reserved_name")
        if r["name"] in ("UCG_IMPORT_PATH", "PATH", "USER", "PWD", "OLDPWD", "XDG_CACHE_HOME", "TERM", "LANG", "LC_ALL", "RUST_LOG", "TMPDIR", "SHELL", "EDITOR", "NO_COLOR"):
            res.probe("wellknown_name")
        if name_class(r["name"]) == "digit-initial":
            res.probe("digit_initial_name")
        if cls in ("bmp", "astral", "combining", "rtl", "long"):
            res.probe("non_ascii_value")
        if cls == "newline":
            res.probe("newline_value")
        if cls == "empty":
            res.probe("empty_value")
    if world["fields"]:
        res.probe("field_named_env")
        res.key(["field_named_env", world["strict"]], True)

    # ---- leak scan over the whole output stream (all modes) -----------------------------------
    leaked = [e for e in world["env"] if e["tok"] in inv.out and e["cls"] != "empty"]   # the whole stream, the failing pre-file included
    if leaked:
        sec = [e["name"] for e in leaked if e["secret"]]
        res.violate("C18.leak", "diagnostic" if status != 0 else "stream",
                    "the output discloses the value of %s%s, which the failing expression did not name\n%s" % (
                        [e["name"] for e in leaked][:6], " (planted secrets: %s)" % sec if sec else "", ctx))
    if unset and any(e["secret"] for e in world["env"]):
        res.probe("secret_planted_and_unset_read")

    if world["strict"] and first_unset is not None:
        res.probe("unset_strict")
        if status != 1:
            res.violate("C18.unset-strict", "not-an-error", "reading the unset variable %s in strict mode did not fail the build (exit %s)\n%s" % (first_unset["name"], status, ctx))
        elif first_unset["name"] not in out:
            res.violate("C18.unset-strict", "name-missing", "the diagnostic does not name the unset variable %s\n%s" % (first_unset["name"], ctx))
        if art is not None:
            res.violate("C18.unset-strict", "artifact-written", "the failing build left an artifact\n" + ctx)
    else:
        if unset:
            res.probe("unset_nonstrict")
        if status != 0 or not isinstance(art, dict):
            res.violate("C18.build-fails", "strict" if world["strict"] else "nonstrict", "a program that only reads %s variables failed to build\n%s" % (
                "set" if not unset else "set and (non-strict) unset", ctx))
        else:
            for i, r in enumerate(world["reads"]):
                got = art.get("v%d" % i, "<absent>")
                if r["pos"] in NULL_TESTS:
                    want = NULL_TESTS[r["pos"]][0 if r["set"] else 1]
                    if got != want:
                        res.violate("C18.null-test", r["pos"], "%s at position %s gave %r for a variable that is %s; expected %r\n%s" % (
                            sel(r["name"]), r["pos"], got, "set" if r["set"] else "unset (non-strict)", want, ctx))
                        break
                elif r["set"]:
                    want = envmap[r["name"]]
                    if got != want:
                        e = next(e for e in world["env"] if e["name"] == r["name"])
                        res.violate("C18.value", e["cls"], "%s read at position %s gave %r; the variable holds %r\n%s" % (sel(r["name"]), r["pos"], got, want, ctx))
                        break
                else:
                    if got is not None:
                        res.violate("C18.unset-nonstrict", r["pos"], "unset %s read at position %s in non-strict mode gave %r instead of NULL\n%s" % (r["name"], r["pos"], got, ctx))
                        break
            if world["fields"]:
                u = world["field_uid"]
                for k, want in (("w0", u), ("w1", u + "-t"), ("w2", u + "-inner")):
                    if art.get(k) != want:
                        res.violate("C18.field", k, "a tuple field named env must win over the environment: %s = %r, expected %r\n%s" % (k, art.get(k), want, ctx))
                        break

    # ---- `let env = ...` must not build --------------------------------------------------------
    form = world.get("let_env")
    if form is True:
        form = "plain"
    if form:
        res.probe("let_env")
        if form != "plain":
            res.probe("let_env_variant")
        sb.write("proj/shadow.ucg", LET_ENV_SRC[form])
        inv2 = sb.invoke(flags + ["build", "shadow.ucg"], cwd="proj", env=envmap)
        res.history.append({"argv": inv2.argv, "status": inv2.status, "out": inv2.out})
        res.key(["let_env", form, world["strict"]], True)
        if inv2.status == 0 or sb.exists("proj/shadow.json"):
            res.violate("C18.shadow", "let", "a binding named env (%s form) built successfully (exit %s, artifact: %s)\n%s--- \n%s" % (
                form, inv2.status, sb.read("proj/shadow.json") if sb.exists("proj/shadow.json") else None, LET_ENV_SRC[form], inv2.out))
        leaked2 = [e for e in world["env"] if e["tok"] in inv2.out and e["cls"] != "empty"]
        if leaked2:
            res.violate("C18.leak", "diagnostic", "the `let env` diagnostic discloses %s\n%s" % ([e["name"] for e in leaked2], inv2.out[-800:]))


def shrink_candidates(world):
    w = world
    read_names = {r["name"] for r in w["reads"]}
    for i in range(len(w["reads"])):
        if len(w["reads"]) > 1:
            yield dict(w, reads=w["reads"][:i] + w["reads"][i + 1:])
    for i, e in enumerate(w["env"]):
        if e["name"] not in read_names:
            yield dict(w, env=w["env"][:i] + w["env"][i + 1:])
    if w["fields"]:
        yield dict(w, fields=False)
    if w.get("let_env"):
        yield dict(w, let_env=None)
    if w.get("pre_fail"):
        yield dict(w, pre_fail=None)
    if w.get("walk"):
        yield dict(w, walk=False)
    for i, r in enumerate(w["reads"]):
        if r["pos"] not in ("top", "quoted"):
            yield dict(w, reads=w["reads"][:i] + [dict(r, pos="quoted" if needs_quote(r["name"]) else "top")] + w["reads"][i + 1:])
    for i, e in enumerate(w["env"]):
        if e["cls"] != "ascii":
            yield dict(w, env=w["env"][:i] + [dict(e, cls="ascii", value=e["tok"])] + w["env"][i + 1:])


ASSUMPTIONS = [
    "configuration sampling only: this property has no schedule or fault dimension; the simulator contributes a hermetic environment and the output scan",
    "a value counts as disclosed when its unique token appears anywhere in the merged stdout/stderr of the build",
    "non-UTF-8 environment values are outside the property's quantifier and are not generated",
]
