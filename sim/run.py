#!/usr/bin/env python3
"""ucgsim entry point.

  run.py setup                         build the subject from /repo's working tree
  run.py check <ID> [--tier quick|thorough] [--seed N] [--runs N] [--workers N]
  run.py replay <file>                 re-execute a replay file in a fresh sandbox (exit 1 = reproduces)
  run.py determinism <ID> [--runs N]   execute N run seeds twice (different worker counts) and diff histories
  run.py one <ID> <index> [--tier T]   execute one run verbosely

Exit status of `check`: 0 = property held on everything explored, 1 = VIOLATION line(s) printed,
2 = harness error (subject does not build, replay diverged, probe stuck at zero, ...)."""
import argparse
import json
import os
import sys

sys.path.insert(0, os.path.dirname(os.path.abspath(__file__)))

from ucgsim import engine, subject  # noqa: E402
from ucgsim import rng as rngmod  # noqa: E402


def main():
    ap = argparse.ArgumentParser()
    sub = ap.add_subparsers(dest="cmd")
    sub.add_parser("setup")
    c = sub.add_parser("check")
    c.add_argument("prop")
    c.add_argument("--tier", default=os.environ.get("VERIF_TIER", "quick"))
    c.add_argument("--seed", type=int, default=None)
    c.add_argument("--runs", type=int, default=None)
    c.add_argument("--workers", type=int, default=None)
    c.add_argument("--wall-cap", type=int, default=None)
    r = sub.add_parser("replay")
    r.add_argument("file")
    d = sub.add_parser("determinism")
    d.add_argument("prop")
    d.add_argument("--runs", type=int, default=200)
    d.add_argument("--tier", default="quick")
    d.add_argument("--seed", type=int, default=None)
    o = sub.add_parser("one")
    o.add_argument("prop")
    o.add_argument("index", type=int)
    o.add_argument("--tier", default="quick")
    o.add_argument("--seed", type=int, default=None)
    a = ap.parse_args()

    def seed_of(x):
        if x is not None:
            return x
        s = os.environ.get("VERIF_SEED", "")
        try:
            return int(s) if s.strip() else engine.DEFAULT_SEED
        except ValueError:
            return rngmod.mix(0, s)

    if a.cmd == "setup":
        subject.build()
        return 0
    if a.cmd == "check":
        tier = a.tier if a.tier in ("quick", "thorough") else "quick"
        return engine.run_check(a.prop, tier, seed_of(a.seed), runs=a.runs, workers=a.workers, wall_cap=a.wall_cap)
    if a.cmd == "replay":
        subject.build(verbose=False)
        return engine.replay(a.file)
    if a.cmd == "determinism":
        return determinism(a.prop, a.tier, seed_of(a.seed), a.runs)
    if a.cmd == "one":
        subject.build(verbose=False)
        mod = engine.load_check(a.prop)
        pseed = rngmod.mix(seed_of(a.seed), mod.PROPERTY)
        run_seed = rngmod.mix(pseed, "run", a.index)
        world = mod.generate(rngmod.Rng(run_seed), a.tier, a.index)
        print(json.dumps(world, indent=1))
        res = engine.execute(mod, world)
        print(json.dumps(res.history, indent=1)[:20000])
        print("violations:", json.dumps(res.violations, indent=1))
        print("faults:", res.faults, "probes:", res.probes, "keys:", res.keys)
        if res.harness_error:
            print(res.harness_error)
        return 0
    ap.print_help()
    return 2


def determinism(prop, tier, seed, runs):
    """Every run seed executed twice, once in a 16-worker pool and once in a 3-worker pool."""
    import multiprocessing
    subject.build(verbose=False)
    mod = engine.load_check(prop)
    pseed = rngmod.mix(seed, mod.PROPERTY)
    name = mod.__name__.split(".")[-1]
    out = []
    for workers in (16, 3):
        with multiprocessing.Pool(workers, initializer=engine._init, initargs=(name, tier, pseed)) as pool:
            out.append({d["index"]: d for d in pool.map(engine._work, range(runs), chunksize=1)})
    bad = [i for i in range(runs) if out[0][i]["hist"] != out[1][i]["hist"] or out[0][i]["violations"] != out[1][i]["violations"]]
    herr = [i for i in range(runs) if out[0][i]["harness_error"] or out[1][i]["harness_error"]]
    print("determinism %s: %d run seeds x 2 executions (16 and 3 workers): %d diverged, %d harness errors" % (
        mod.PROPERTY, runs, len(bad), len(herr)))
    if herr:
        print(out[0][herr[0]]["harness_error"] or out[1][herr[0]]["harness_error"])
    if bad:
        print("diverged run indices:", bad[:20])
    print("digest-of-digests:", engine.digest([out[0][i]["hist"] for i in range(runs)]))
    return 2 if (bad or herr) else 0


if __name__ == "__main__":
    sys.exit(main())
